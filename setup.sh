#!/bin/sh
# MANIFEST.setup_cmd: offline; builds everything the checks need from files on disk.
set -e
here=$(cd "$(dirname "$0")" && pwd)
cd "$here"
export PIP_NO_INDEX=1
/venv/bin/python -c "import hypothesis" 2>/dev/null || \
  /venv/bin/pip install --no-index --find-links /opt/veriftools/wheels hypothesis
mkdir -p .deps
/venv/bin/python -c "import sys; sys.path.insert(0, '.deps'); import jsonschema" 2>/dev/null || \
  /venv/bin/pip install -q --no-index --find-links /opt/veriftools/wheels --target .deps jsonschema
/venv/bin/python -c "import sys; sys.path.insert(0, '.deps'); import atheris" 2>/dev/null || \
  /venv/bin/pip install -q --no-index --find-links /opt/veriftools/wheels --target .deps atheris || true
mkdir -p tools/stubbin
gcc -O1 -Wall -o tools/stubbin/rec tools/src/rec.c
for n in cc c++ ar yacc lex gen rec2 drv cp ln doppel patchelf; do cp -f tools/stubbin/rec tools/stubbin/$n; done
mkdir -p tools/wrapbin
for n in gccw g++w clangw; do cp -f tools/stubbin/rec tools/wrapbin/$n; done
/venv/bin/python -c "import bfg9000; print('bfg9000', bfg9000.__file__)"
/venv/bin/python tools/refninja/selftest.py
echo setup ok
