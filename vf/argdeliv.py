"""Shared machinery of C01 (Make) and C02 (Ninja): every argument reaches the
spawned process unchanged.

One script template places generated strings in every argument position the
properties list.  The oracle is *substitution metamorphism*: the template is
run once per process with benign unique placeholders (ZQ0001 ...) and the
argv/environ of every process started by the backend are recorded by the stub
programs (tools/src/rec.c); a case then runs the same template with special
strings, and every recorded argv/environ must equal the placeholder run's with
each placeholder replaced by its string.  Command-line positions of `rec` are
additionally compared with the literal lists of the model.
"""
import json
import os
import re

from hypothesis import strategies as st

from .runner import Violation, HarnessError
from . import sandbox

MAKE_SPECIAL = set('$#%:;=,()\\~*?[]|&@!')
SH_SPECIAL = set('\'"`$ \t&;<>|*?#~=%!{}()\\')
NINJA_SPECIAL = set('$: |')
ALL_SPECIAL = MAKE_SPECIAL | SH_SPECIAL | NINJA_SPECIAL

TOKENS = ['$(X)', '${X}', '$$', '$@', '$<', '%.o', '\\#', 'a\\', "'\\''", '-n',
          'a=b', '', '~', '~x', '$(shell echo hi)', '`id`', '$X', '#', ' #x',
          'a #b', '$,', '$(,)', '\\', '\\\\', '"', "'", ' ', '  ', '\t',
          '*', '?', '[a]', '{a,b}', '&&', '||', ';', '|', '>', '<', '!!',
          '%', '%%', 'a:b', '@', '-', '--', '$ ', '$:', '$\t', '\\n', 'é',
          '日本', '😀', ' ', '(', ')', '((', '$(', '${', '$)']

_alpha = st.sampled_from(
    sorted(ALL_SPECIAL) + list('abcXYZ019_-+./') + ['é', 'ß', '日', '😀',
                                                    ' ', ' '])


@st.composite
def arg_strings(draw, max_size=10):
    k = draw(st.integers(0, 9))
    if k <= 2:
        return draw(st.sampled_from(TOKENS))
    if k == 3:
        return draw(st.sampled_from(TOKENS)) + draw(st.sampled_from(TOKENS))
    if k == 4:
        # long arguments (lines of the build file get wide) with a run of
        # blanks or a token somewhere inside
        mid = draw(st.one_of(
            st.builds(lambda n, c: c * n, st.integers(2, 12),
                      st.sampled_from([' ', '\t', '$', '\\', "'"])),
            st.sampled_from(TOKENS)))
        return 'x' * draw(st.integers(0, 90)) + mid + \
            'y' * draw(st.integers(0, 40))
    return ''.join(draw(st.lists(_alpha, min_size=0, max_size=max_size)))


_name_alpha = st.sampled_from(
    sorted(ALL_SPECIAL - set('/\\')) + list('abcXYZ019_-+.') + ['é', '日'])


@st.composite
def dir_names(draw):
    """Directory names used as include / library directories (they only occur
    as command arguments, never as targets or prerequisites)."""
    s = ''.join(draw(st.lists(_name_alpha, min_size=1, max_size=6)))
    s = s.replace('/', '_').replace('\0', '_')
    if s in ('.', '..') or s.strip() == '':
        s = 'd' + s + 'd'
    if s[0] in '~-':
        s = 'd' + s
    if s[1:2] == ':':
        s = s[0] + '_' + s[2:]          # not a drive prefix
    return s


# positions: (id, label, class) ; class groups positions that travel the same
# way (used for known-finding keys and exclusions)
POSITIONS = [
    ('P1a', 'command-word', 'recipe'), ('P1b', 'command-word', 'recipe'),
    ('P1c', 'command-word', 'recipe'),
    ('P2a', 'cmds-word', 'recipe'), ('P2b', 'cmds-word', 'recipe'),
    ('P2c', 'cmds-word', 'recipe'), ('P2e', 'cmds-env', 'recipe-env'),
    ('P3w', 'command-word', 'recipe'), ('P3e1', 'command-env', 'recipe-env'),
    ('P3e2', 'command-env', 'recipe-env'),
    ('P3se', 'shell-line-env', 'recipe-env'),
    ('P4w1', 'build_step-word', 'recipe'),
    ('P4w2', 'build_step-word', 'recipe'),
    ('P4e', 'build_step-env', 'recipe-env'),
    ('P5w', 'test-word', 'recipe'), ('P5e', 'test-env', 'recipe-env'),
    ('P6d', 'driver-word', 'recipe'), ('P6de', 'driver-env', 'recipe-env'),
    ('P6c1a', 'driver-child-word', 'nested'),
    ('P6c1b', 'driver-child-word', 'nested'),
    ('P6c2', 'driver-child-single', 'nested'),
    ('P7a', 'compile_options-list', 'flags-var'),
    ('P7b', 'compile_options-list', 'flags-var'),
    ('P8a', 'compile_options-string', 'flags-var'),
    ('P8b', 'compile_options-string', 'flags-var'),
    ('P9a', 'link_options-list', 'flags-var'),
    ('P9s', 'link_options-string', 'flags-var'),
    ('P10a', 'global_options-list', 'flags-var'),
    ('P10s', 'global_options-string', 'flags-var'),
    ('P10x', 'global_options-shared-word', 'flags-var'),
    ('P7x', 'compile_options-shared-word', 'flags-var'),
    ('P7v', 'compile_options-multi-output', 'flags-var'),
    ('P9v', 'link_options-multi-output', 'flags-var'),
    ('P17y', 'generator-option-multi-output', 'flags-var'),
    ('P17g', 'generator-global-option', 'flags-var'),
    ('P17o', 'generator-option-single-output', 'flags-var'),
    ('P15y', 'env-YFLAGS', 'flags-var'),
    ('P11a', 'global_link_options-list', 'flags-var'),
    ('P11s', 'global_link_options-string', 'flags-var'),
    ('P12v', 'define-value', 'flags-var'),
    ('P13i', 'include-dir', 'flags-var-path'),
    ('P13l', 'lib-dir', 'flags-var-path'),
    ('P14f', 'file-argument', 'file-arg'),
    ('P16p', 'install-prefix', 'install-path'),
    ('P15c', 'env-CFLAGS', 'flags-var'), ('P15p', 'env-CPPFLAGS', 'flags-var'),
    ('P15x', 'env-CFLAGS-shared-word', 'flags-var'),
    ('P15l', 'env-LDFLAGS', 'flags-var'), ('P15b', 'env-LDLIBS', 'flags-var'),
]
POS = {p[0]: p for p in POSITIONS}
DIR_POS = {'P13i', 'P13l', 'P16p'}
FILE_POS = {'P14f'}


def placeholder(i):
    return 'ZQ{:04d}'.format(i + 1)


BASELINE_VALUES = {p[0]: placeholder(i) for i, p in enumerate(POSITIONS)}


def strquote(s):
    """Quote one argument for the *string* forms of options and for flag
    variables: single-quote segments, with ' written as "'" -- the subset on
    which sh and bfg9000's splitter (shlex without backslash escapes) agree."""
    if s == '':
        return "''"
    out = []
    for m in re.finditer(r"'+|[^']+", s):
        t = m.group(0)
        out.append('"' + t + '"' if t[0] == "'" else "'" + t + "'")
    return ''.join(out)


_SH_SAFE = set('abcdefghijklmnopqrstuvwxyzABCDEFGHIJKLMNOPQRSTUVWXYZ'
               '0123456789_-+./:=,@%^#')


def strquote_min(s):
    """As strquote(), but characters that neither sh nor a shlex-style
    splitter treats specially inside a word stay unquoted (`#` is a comment
    character only at the start of a word)."""
    if s == '':
        return "''"
    out = []
    for m in re.finditer(r"'+|[^']+", s):
        t = m.group(0)
        if t[0] == "'":
            out.append('"' + t + '"')
            continue
        for n in re.finditer(r'[A-Za-z0-9_\-+./:=,@%^#]+|[^A-Za-z0-9_\-+./:=,@%^#]+', t):
            u = n.group(0)
            out.append(u if u[0] in _SH_SAFE else "'" + u + "'")
    r = ''.join(out)
    return r if r[0] != '#' else "'#'" + r[1:]


def render(src, v, shape):
    """Write the project for the value table v."""
    r = repr
    lines = [
        "project('argdeliv', version='1.0')",
        "global_options([{}], lang='c')".format(r('-DG10A=' + v['P10a'])),
        "global_options({}, lang='c')".format(
            r(strquote_min('-DG10S=' + v['P10s']))),
        # the same word in a global and in a per-target list
        "global_options(['-Xpreprocessor', {}], lang='c')".format(
            r('-DG10X=' + v['P10x'])),
        "global_options([{}], lang='yacc')".format(r('-DG17G=' + v['P17g'])),
    ] + ([
        "global_link_options([{}])".format(r('-Wl,--g11a=' + v['P11a'])),
        "global_link_options({})".format(
            r(strquote('-Wl,--g11s=' + v['P11s']))),
    ] if shape.get('link_globals', True) else [
        # no global link flags at all, and the first link step declared has
        # no options of its own
        "bare = executable('bare', ['main2.c'])",
    ]) + ([
        # a grammar with one explicitly named output, declared before or
        # after the two-output one
        "gram1 = generated_source('one.c', 'gram1.y', options=[{}])".format(
            r('-DY17O=' + v['P17o'])),
    ] if shape.get('yacc_one_first', True) else []) + [
        "inc = header_directory({})".format(r(v['P13i'] + '/')),
        "libd = directory({})".format(r(v['P13l'] + '/')),
        "slib = static_library('slib', ['lib.c'])",
        "shl = shared_library('shl', ['shl.c'])",
        "vprog = executable('prog', ['main.c'], includes=[inc], "
        "libs=[slib, shl], "
        "compile_options=[{}, {}, opts.define('D12', {}), '-Xpreprocessor', "
        "{}], link_options=[{}, opts.lib_dir(libd)])".format(
            r('-DC7A=' + v['P7a']), r('-DC7B=' + v['P7b']), r(v['P12v']),
            r('-DC7X=' + v['P7x']), r('-Wl,--l9a=' + v['P9a'])),
        # steps with several outputs: a versioned shared library and a
        # grammar (source + header)
        "vshl = shared_library('vshl', ['vshl.c'], version='1.2.3', "
        "soversion='1', compile_options=[{}], link_options=[{}])".format(
            r('-DC7V=' + v['P7v']), r('-Wl,--l9v=' + v['P9v'])),
        "gram = generated_source(file='gram.y', options=[{}])".format(
            r('-DY17=' + v['P17y'])),
    ] + ([
        "gram1 = generated_source('one.c', 'gram1.y', options=[{}])".format(
            r('-DY17O=' + v['P17o'])),
    ] if not shape.get('yacc_one_first', True) else []) + [
        "vprog2 = executable('prog2', ['main2.c'], "
        "pch=precompiled_header(file='pre.h'), compile_options={}, "
        "link_options={})".format(
            r(strquote('-DC8A=' + v['P8a']) + ' ' +
              strquote_min('-DC8B=' + v['P8b'])),
            r(strquote_min('-Wl,--l9s=' + v['P9s']))),
        "command('p1', cmd=['rec', 'P1', {}, {}, {}])".format(
            r(v['P1a']), r(v['P1b']), r(v['P1c'])),
        "command('p2', cmds=[['rec', 'P2x', {}], ['rec', 'P2y', {}, {}]], "
        "environment={{'VFENV7': {}}})".format(
            r(v['P2a']), r(v['P2b']), r(v['P2c']), r(v['P2e'])),
        "command('p3', cmd=['rec', 'P3', {}], environment={{'VFENV1': {}, "
        "'VFENV2': {}}})".format(r(v['P3w']), r(v['P3e1']), r(v['P3e2'])),
        "command('p3s', cmd='rec P3s1 && rec P3s2 | rec P3s3', "
        "environment={{'VFENV6': {}}})".format(r(v['P3se'])),
        "p4 = build_step('p4.out', cmd=['rec', 'P4', '--vf-out=p4.out', {}, {}], "
        "environment={{'VFENV3': {}}})".format(r(v['P4w1']), r(v['P4w2']),
                                              r(v['P4e'])),
        "command('p14', cmd=['rec', 'P14', command.input], files=[{}])"
        .format(r(v['P14f'] + '.in')),
    ] + (lambda a, b: [a, b] if shape.get('symlink_src_first', True)
         else [b, a])(
        # links to a source-tree file and to a build-tree file
        "copy_file('lnk/src.lnk', {}, mode='symlink')".format(
            r(v['P14f'] + '.in')),
        "copy_file('lnk/bld.lnk', p4, mode='symlink')") + [
        "install(executable('iprog', ['main2.c']))",
        "default(vprog, vprog2, vshl, gram, gram1{})".format(
            '' if shape.get('link_globals', True) else ', bare'),
        "test(['rec', 'P5', {}], environment={{'VFENV4': {}}})".format(
            r(v['P5w']), r(v['P5e'])),
        "drv = test_driver(['drv', 'P6', {}], environment={{'VFENV5': {}}}, "
        "wrap_children={})".format(r(v['P6d']), r(v['P6de']),
                                   bool(shape.get('wrap_children'))),
        "test(['rec2', 'P6c1', {}, {}], driver=drv)".format(
            r(v['P6c1a']), r(v['P6c1b'])),
        "test([{}], driver=drv)".format(r(v['P6c2'])),
    ]
    sandbox.write_file(os.path.join(src, 'build.bfg'), '\n'.join(lines) + '\n')
    for f in ('main.c', 'main2.c', 'lib.c', 'shl.c', 'vshl.c', 'gram.y',
              'gram1.y', 'pre.h'):
        sandbox.write_file(os.path.join(src, f), 'int x;\n')
    os.makedirs(os.path.join(src, v['P13i']), exist_ok=True)
    os.makedirs(os.path.join(src, v['P13l']), exist_ok=True)
    sandbox.write_file(os.path.join(src, v['P14f'] + '.in'), 'x\n')


def configure_env(v, shape=None):
    env = {
        'CC': 'cc', 'YACC': 'yacc',
        'YFLAGS': strquote('-DE15Y=' + v['P15y']),
        # (the word -Xpreprocessor is also given by global_options())
        'CFLAGS': strquote('-DE15C=' + v['P15c']) + ' -Xpreprocessor ' +
        strquote('-DE15X=' + v['P15x']),
        'CPPFLAGS': strquote('-DE15P=' + v['P15p']),
        'LDFLAGS': strquote('-Wl,--e15l=' + v['P15l']),
        'LDLIBS': strquote('-le15b' + v['P15b']),
    }
    if shape is not None and not shape.get('link_globals', True):
        del env['LDFLAGS'], env['LDLIBS']
    return env


# names of the source directory itself: characters Make passes through but
# the shell interprets
SRC_NAMES = ['src', 'src', 'src', 'R&D', 'a(b)c', 'x<y>z', 'b`t', 'q"q']

NINJA_SRC_NAMES = ['src', 'a(b)c']

TARGETS = ['p1', 'p2', 'p3', 'p3s', 'p4.out', 'p14', 'lnk/src.lnk',
           'lnk/bld.lnk', 'prog', 'all', 'test', 'install']


def run_template(backend, v, shape, tmp):
    """Returns (status, logs) where logs = {target: [invocation...]} and
    status = {'configure': Result, target: Result}."""
    # (the source directory's own name may need quoting for the shell; the
    # logs show it as @ROOT@/src whatever it is called)
    src = os.path.join(tmp, (shape or {}).get('srcname', 'src'))
    bld = os.path.join(tmp, 'bld')
    os.makedirs(src)
    render(src, v, shape)
    env = sandbox.base_env(os.path.join(tmp, 'home'), stub=True,
                           extra=configure_env(v, shape))
    status = {}
    r = sandbox.configure(src, bld, env, backend=backend,
                          extra=['--enable-static', '--enable-shared',
                                 '--prefix=' + os.path.join(tmp, 'root',
                                                            v['P16p'])])
    status['configure'] = r
    logs = {}
    if r.rc != 0:
        return status, logs
    benv = sandbox.base_env(os.path.join(tmp, 'home'), stub=True)
    for t in TARGETS:
        log = os.path.join(tmp, 'log.' + t.replace('/', '_'))
        e = dict(benv, VF_LOG=log)
        status[t] = sandbox.run_backend(backend, bld, e, [t])
        logs[t] = decode_log(sandbox.read_log(log), tmp, src)
        if t == 'p3s':
            # the two sides of the pipe run concurrently: order-insensitive
            logs[t].sort(key=lambda e: e['argv'])
    return status, logs


def _unhex(h):
    return bytes.fromhex(h).decode('utf-8', 'surrogateescape')


def decode_log(entries, tmp, src=None):
    out = []
    root = os.path.realpath(tmp)
    srcs = [os.path.realpath(src), src] if src else []

    def norm(a):
        for s_ in srcs:
            a = a.replace(s_, '@ROOT@/src')
        return a.replace(root, '@ROOT@').replace(tmp, '@ROOT@')
    for e in entries:
        argv = [norm(_unhex(a)) for a in e['argv']]
        env = {k: _unhex(val) for k, val in e['env'].items()
               if k.startswith('VFENV')}
        out.append({'tool': e['tool'], 'argv': argv, 'env': env})
    return out


def substitute(s, values):
    """Replace every placeholder occurring in s by its value."""
    def repl(m):
        for pid, ph in BASELINE_VALUES.items():
            if ph == m.group(0):
                return values[pid]
        return m.group(0)
    return re.sub(r'ZQ\d{4}', repl, s)


def placeholders_in(s):
    found = re.findall(r'ZQ\d{4}', s)
    inv = {ph: pid for pid, ph in BASELINE_VALUES.items()}
    return [inv[f] for f in found if f in inv]


_baseline_cache = {}


def inactive(shape):
    """Positions the template does not contain in this shape."""
    return set() if shape.get('link_globals', True) else set(GLOBAL_LINK)



def baseline(backend, shape):
    # (the reference run always lives in a plainly named source directory)
    shape = {k: v for k, v in (shape or {}).items() if k != 'srcname'}
    key = (backend, json.dumps(shape, sort_keys=True))
    if key not in _baseline_cache:
        with sandbox.scratch('argb') as tmp:
            status, logs = run_template(backend, BASELINE_VALUES, shape, tmp)
        for k, r in status.items():
            if r.rc != 0:
                raise HarnessError('baseline (placeholder) run failed at {}: '
                                   '{}\n{}'.format(k, r.err[-1500:],
                                                   r.out[-500:]))
        # sanity: every placeholder must have been delivered somewhere
        seen = set()
        for t, invs in logs.items():
            for inv in invs:
                for a in inv['argv']:
                    seen.update(placeholders_in(a))
                for val in inv['env'].values():
                    seen.update(placeholders_in(val))
        _baseline_cache[key] = logs
        _baseline_missing[key] = [p for p in BASELINE_VALUES
                                  if p not in seen and
                                  p not in inactive(shape)]
    return _baseline_cache[key]


_baseline_missing = {}


def specials(s, backend):
    sp = MAKE_SPECIAL | SH_SPECIAL if backend == 'make' \
        else NINJA_SPECIAL | SH_SPECIAL
    return sorted({c for c in s if c in sp} |
                  ({'non-ascii'} if any(ord(c) > 127 for c in s) else set()) |
                  ({'empty'} if s == '' else set()))


def sh_split(s):
    """Split a command line the way /bin/sh does (the consumer of a collapsed
    test-driver child): run the real shell in an empty directory."""
    import subprocess
    with sandbox.scratch('shs') as d:
        p = subprocess.run(['/bin/sh', '-c', 'set -- ' + s +
                            '\nfor a; do printf "%s\\0" "$a"; done'],
                           cwd=d, env={'PATH': '/nonexistent'},
                           stdout=subprocess.PIPE, stderr=subprocess.PIPE)
    if p.returncode != 0:
        return None
    parts = p.stdout.decode('utf-8', 'surrogateescape').split('\0')
    return parts[:-1]


def check_driver(values, g):
    """The test driver gets one argument per child; a multi-word child must
    sh-split to its words, a one-word child must be the word or split to
    it."""
    argv = g['argv']
    want_head = ['drv', 'P6', values['P6d']]
    if argv[:3] != want_head or len(argv) != 5:
        return (['P6d'], 'driver received argv {!r}, expected {!r} plus one '
                'argument per child'.format(argv, want_head))
    c1 = sh_split(argv[3])
    want1 = ['rec2', 'P6c1', values['P6c1a'], values['P6c1b']]
    if c1 != want1:
        return (['P6c1a', 'P6c1b'], 'driver argument {!r} sh-splits to {!r}, '
                'the child is {!r}'.format(argv[3], c1, want1))
    if argv[4] != values['P6c2'] and sh_split(argv[4]) != [values['P6c2']]:
        return (['P6c2'], 'driver argument {!r} is neither the one-word child '
                '{!r} nor splits to it'.format(argv[4], values['P6c2']))
    if g['env'] != {'VFENV5': values['P6de']}:
        return (['P6de'], 'driver environment {!r}, script specified {!r}'
                .format(g['env'], {'VFENV5': values['P6de']}))
    return None


def compare(backend, values, shape, status, logs):
    """Returns None or (position ids involved, message)."""
    base = baseline(backend, shape)
    if status['configure'].rc != 0:
        return (None, 'configure failed: ' +
                status['configure'].err.strip()[-600:])
    def okey(argv):
        if '-o' in argv[:-1]:
            return (argv[0], argv[argv.index('-o') + 1])
        if argv and argv[0] == 'ar' and len(argv) > 2:
            return (argv[0], argv[2])
        return (argv[0] if argv else '', '\0'.join(argv))
    for t in TARGETS:
        want = base[t]
        got = logs.get(t, [])
        st_ = status.get(t)
        if backend == 'ninja' and (shape or {}).get('srcname', 'src') != 'src' \
                and t != 'p3s':
            # independent steps are started in the order of their path names,
            # which the name of the source directory is part of: compare the
            # processes step by step, not position by position
            want = sorted(want, key=lambda w_: okey(
                [substitute(a, values) for a in w_['argv']]))
            got = sorted(got, key=lambda g_: okey(g_['argv']))
        for i, w in enumerate(want):
            exp_argv = [substitute(a, values) for a in w['argv']]
            exp_env = {k: substitute(val, values)
                       for k, val in w['env'].items()}
            pids = sorted({p for a in w['argv'] for p in placeholders_in(a)} |
                          {p for val in w['env'].values()
                           for p in placeholders_in(val)})
            if i >= len(got):
                return (pids, 'target {!r}: process #{} ({}) was never '
                        'started or the build stopped before it; expected '
                        'argv {!r}; tool said: {}'.format(
                            t, i, w['tool'], exp_argv,
                            (st_.err.strip()[-500:] if st_ else '')))
            g = got[i]
            if w['tool'] == 'drv':
                bad = check_driver(values, g)
                if bad:
                    return bad
                continue
            if g['argv'] != exp_argv:
                bad = [j for j, (x, y) in enumerate(zip(exp_argv, g['argv']))
                       if x != y]
                pp = sorted({p for j in bad if j < len(w['argv'])
                             for p in placeholders_in(w['argv'][j])}) or pids
                return (pp, 'target {!r}: {} received argv {!r}, the script '
                        'specified {!r}'.format(t, w['tool'], g['argv'],
                                                exp_argv))
            if g['env'] != exp_env:
                pp = sorted(p for k, val in w['env'].items()
                            for p in placeholders_in(val)
                            if g['env'].get(k) != exp_env[k]) or pids
                return (pp, 'target {!r}: {} received environment {!r}, the '
                        'script specified {!r}'.format(t, w['tool'], g['env'],
                                                       exp_env))
        if len(got) > len(want):
            return (None, 'target {!r}: unexpected extra process {!r}'.format(
                t, got[len(want)]['argv']))
        if st_ is not None and st_.rc != 0:
            return (None, 'target {!r}: backend exited {}: {}'.format(
                t, st_.rc, st_.err.strip()[-500:]))
    return None


def literal_model_check(values, logs):
    """Independent of the baseline: the rec invocations of P1..P5 must carry
    exactly the lists written in the script."""
    want = {
        'p1': [['rec', 'P1', values['P1a'], values['P1b'], values['P1c']]],
        'p2': [['rec', 'P2x', values['P2a']],
               ['rec', 'P2y', values['P2b'], values['P2c']]],
        'p3': [['rec', 'P3', values['P3w']]],
        'p4.out': [['rec', 'P4', '--vf-out=p4.out', values['P4w1'],
                    values['P4w2']]],
    }
    for t, lists in want.items():
        got = [g['argv'] for g in logs.get(t, []) if g['tool'] == 'rec']
        if got != lists:
            return ([p for p in values if p.startswith(
                'P' + t[1])], 'target {!r}: rec received {!r}, script lists '
                '{!r}'.format(t, got, lists))
    g3s = [g for g in logs.get('p3s', []) if g['tool'] == 'rec']
    if sorted(g['argv'] for g in g3s) != [['rec', 'P3s1'], ['rec', 'P3s2'],
                                          ['rec', 'P3s3']]:
        return (['P3se'], 'p3s: processes {!r}'.format(
            [g['argv'] for g in g3s]))
    for g in g3s:
        if g['env'] != {'VFENV6': values['P3se']}:
            return (['P3se'], 'p3s: process {!r} started with environment '
                    '{!r}, the script specified {!r} for the step'.format(
                        g['argv'], g['env'], {'VFENV6': values['P3se']}))
    for t, src_ in (('lnk/src.lnk', '@ROOT@/src/' + values['P14f'] + '.in'),
                    ('lnk/bld.lnk', '../p4.out')):
        got = [g['argv'] for g in logs.get(t, []) if g['tool'] == 'ln']
        if got != [['ln', '-sf', src_, t]]:
            return (['P14f'], 'target {!r}: ln received {!r}, a link to {!r} '
                    'was declared'.format(t, got, src_))
    for g in logs.get('p2', []):
        if g['tool'] == 'rec' and g['env'] != {'VFENV7': values['P2e']}:
            return (['P2e'], 'p2: command line {!r} of the step started with '
                    'environment {!r}, the script specified {!r} for the '
                    'step'.format(g['argv'], g['env'],
                                  {'VFENV7': values['P2e']}))
    g3 = [g for g in logs.get('p3', []) if g['tool'] == 'rec']
    if g3 and g3[0]['env'] != {'VFENV1': values['P3e1'],
                               'VFENV2': values['P3e2']}:
        return (['P3e1', 'P3e2'], 'p3: environment {!r}'.format(g3[0]['env']))
    return None


# which option positions belong to which compile/link step (by output)
GLOBAL_COMPILE = {'P10a', 'P10s', 'P10x', 'P15c', 'P15p', 'P15x'}
GLOBAL_LINK = {'P11a', 'P11s', 'P15l', 'P15b'}
OWNERS = {
    'prog.int/main.o': GLOBAL_COMPILE | {'P7a', 'P7b', 'P7x', 'P12v', 'P13i'},
    'libvshl.int/vshl.o': GLOBAL_COMPILE | {'P7v'},
    'libvshl.so.1.2.3': GLOBAL_LINK | {'P9v'},
    './gram.tab.c': {'P15y', 'P17g', 'P17y'},
    './one.c': {'P15y', 'P17g', 'P17o'},
    'pre.h.gch': GLOBAL_COMPILE,
    'prog2.int/main2.o': GLOBAL_COMPILE | {'P8a', 'P8b'},
    'libslib.int/lib.o': GLOBAL_COMPILE,
    'libshl.int/shl.o': GLOBAL_COMPILE,
    'prog': GLOBAL_LINK | {'P9a', 'P13l'},
    'prog2': GLOBAL_LINK | {'P9s'},
    'libshl.so': GLOBAL_LINK,
    'iprog.int/main2.o': GLOBAL_COMPILE,
    'iprog': GLOBAL_LINK,
}


# the file each compile step is told to compile (the word after -c)
SOURCES = {'prog.int/main.o': '@ROOT@/src/main.c',
           'prog2.int/main2.o': '@ROOT@/src/main2.c',
           'libslib.int/lib.o': '@ROOT@/src/lib.c',
           'libshl.int/shl.o': '@ROOT@/src/shl.c',
           'libvshl.int/vshl.o': '@ROOT@/src/vshl.c',
           'iprog.int/main2.o': '@ROOT@/src/main2.c',
           'pre.h.gch': '@ROOT@/src/pre.h'}
LINK_LIBS = {'prog': {'./libslib.a', './libshl.so'}, 'prog2': set(),
             'libshl.so': set(), 'iprog': set(), 'libvshl.so.1.2.3': set()}
# literal option words the script gives to a step, with multiplicity (the
# same word may be given globally and per target: both must arrive)
WORDS = {out: {'-Xpreprocessor': 2} for out in
         ('prog2.int/main2.o', 'pre.h.gch', 'libslib.int/lib.o', 'libshl.int/shl.o',
          'iprog.int/main2.o', 'libvshl.int/vshl.o')}
WORDS['prog.int/main.o'] = {'-Xpreprocessor': 3}
WORDS['./gram.tab.c'] = {'--defines=gram.tab.h': 1, './gram.tab.c': 1}
WORDS['./one.c'] = {'./one.c': 1}


def ownership_violation(backend, shape):
    """Absolute check on the placeholder run: every compile/link step gets
    exactly the options the script gave to it (its own plus the global ones),
    in particular nothing inherited from another target."""
    logs = baseline(backend, shape)
    missing = _baseline_missing[(backend, json.dumps(
        {k: v_ for k, v_ in (shape or {}).items() if k != 'srcname'},
        sort_keys=True))]
    if missing:
        return ('the script gives arguments in positions {} but they reached '
                'no process at all'.format(
                    ['{} ({})'.format(p, POS[p][1]) for p in missing]))
    seen_outputs = set()
    for t in ('prog', 'all'):
        for inv in logs[t]:
            if inv['tool'] not in ('cc', 'yacc') or '-o' not in inv['argv']:
                continue
            if inv['argv'][-1] == '-o':
                return ('{} was started with `-o` as its last argument (no '
                        'output name): {!r}'.format(inv['tool'], inv['argv']))
            out = inv['argv'][inv['argv'].index('-o') + 1]
            seen_outputs.add(out)
            if out not in OWNERS:
                continue
            if out in LINK_LIBS:
                libs = {a for a in inv['argv'][1:]
                        if a.endswith(('.a', '.so')) and a != out and
                        not a.startswith('-')}
                if libs != LINK_LIBS[out]:
                    return ('link step producing {!r} received the libraries '
                            '{} but the script gives it {} (argv {!r})'
                            .format(out, sorted(libs),
                                    sorted(LINK_LIBS[out]), inv['argv']))
            if out in SOURCES:
                got_src = inv['argv'][inv['argv'].index('-c') + 1] \
                    if '-c' in inv['argv'][:-1] else None
                if got_src != SOURCES[out]:
                    return ('step producing {!r} was told to compile {!r} '
                            'but the script names {!r} (argv {!r})'.format(
                                out, got_src, SOURCES[out], inv['argv']))
            for w, n in WORDS.get(out, {}).items():
                if inv['argv'].count(w) != n:
                    return ('step producing {!r} received the word {!r} {} '
                            'time(s) but the script gives it {} time(s) '
                            '(globally and/or per target) (argv {!r})'.format(
                                out, w, inv['argv'].count(w), n, inv['argv']))
            have = {p for a in inv['argv'] for p in placeholders_in(a)}
            if have != OWNERS[out] - inactive(shape):
                return ('step producing {!r} received the options of '
                        'positions {} but the script gives it {} (argv {!r})'
                        .format(out, sorted(have), sorted(OWNERS[out]),
                                inv['argv']))
    missing = set(OWNERS) - seen_outputs
    if missing:
        return 'steps never run: {}'.format(sorted(missing))
    return None


def run_case(backend, values, shape):
    with sandbox.scratch('argd') as tmp:
        status, logs = run_template(backend, values, shape, tmp)
    bad = compare(backend, values, shape, status, logs)
    if bad is None:
        bad = literal_model_check(values, logs)
    return bad


def isolate(backend, values, shape, pids):
    """Bounded minimisation (<= ~12 re-runs): find one position and, if
    possible, one character that alone reproduces the failure."""
    cands = pids or [p for p in values
                     if values[p] != BASELINE_VALUES[p]]
    if not pids:
        # bisect over positions (assumes one culprit; bounded)
        while len(cands) > 1:
            half = cands[:len(cands) // 2]
            v = dict(BASELINE_VALUES)
            for p in half:
                v[p] = values[p]
            if 'P13i' in v and v['P13i'] == v['P13l']:
                v['P13l'] += '2'
            cands = half if run_case(backend, v, shape) is not None \
                else cands[len(cands) // 2:]
    for pid in cands[:4]:
        v = dict(BASELINE_VALUES)
        v[pid] = values[pid]
        bad = run_case(backend, v, shape)
        if bad is None:
            continue
        chars = specials(values[pid], backend)
        for ch in chars[:8]:
            c = {'non-ascii': 'é', 'empty': ''}.get(ch, ch)
            v2 = dict(BASELINE_VALUES)
            v2[pid] = ('x' + c + 'y') if ch != 'empty' else ''
            if pid in DIR_POS and (c in ('/',) or v2[pid] == ''):
                continue
            if run_case(backend, v2, shape) is not None:
                return pid, ch, v2, bad[1]
        return pid, '+'.join(chars) or 'plain', v, bad[1]
    return None, None, values, None


def key_for(backend, pid, ch):
    if pid is None:
        return backend + '/unlocalised'
    return '{}/{}/{}'.format(backend, POS[pid][2], ch)


_file_alpha = st.sampled_from(list('abcXYZ019_-+.') + [' ', '$', '&', '@',
                                                        '!', '+', '~', '^',
                                                        '{', '}', 'é'])


@st.composite
def file_names(draw):
    """File arguments become prerequisites too; characters with open
    findings in the file-name property (C04) are left to that check."""
    s = ''.join(draw(st.lists(_file_alpha, min_size=1, max_size=6)))
    if s in ('.', '..') or s.strip() == '' or s[0] in '~-' or \
            s[1:2] == ':':
        s = 'f' + s
    return s.rstrip(' ') or 'f'


@st.composite
def cases(draw):
    values = {}
    # most positions benign, a few special: keeps failures attributable while
    # every position is exercised over the run
    nspecial = draw(st.integers(3, len(POSITIONS)))
    chosen = set(draw(st.permutations([p[0] for p in POSITIONS]))[:nspecial])
    for i, (pid, label, cls) in enumerate(POSITIONS):
        if pid not in chosen:
            values[pid] = 'v' + pid.lower()
        elif pid in DIR_POS:
            values[pid] = draw(dir_names())
        elif pid in FILE_POS:
            values[pid] = draw(file_names())
        else:
            values[pid] = draw(arg_strings())
    if values['P13i'] == values['P13l']:
        values['P13l'] += '2'
    if values['P6c2'] == '':
        values['P6c2'] = 'c2'       # a test needs a command
    return {'values': values,
            'shape': {'wrap_children': draw(st.booleans()),
                      'link_globals': draw(st.integers(0, 3)) > 0,
                      'yacc_one_first': draw(st.booleans()),
                      'symlink_src_first': draw(st.booleans()),
                      'srcname': draw(st.sampled_from(SRC_NAMES))}}


def make_prop(rec, backend):
    def prop(case):
        values = dict(case['values'])
        shape = case['shape']
        if backend == 'ninja' and shape.get('srcname', 'src') not in \
                NINJA_SRC_NAMES:
            # (the compiler writes the source path into the dependency file;
            # Ninja's depfile syntax has no spelling for these characters,
            # which is between the compiler and Ninja)
            shape = dict(shape, srcname='src')
        # steer around open known findings (count what was excluded)
        for pid, val in list(values.items()):
            for ch in specials(val, backend):
                if rec.is_open(key_for(backend, pid, ch)):
                    c = {'non-ascii': None, 'empty': None}.get(ch, ch)
                    if c is None:
                        values[pid] = 'v' + pid.lower()
                    else:
                        values[pid] = values[pid].replace(c, '_')
                    rec.excluded()
        labs = set()
        nt = []
        for pid, val in values.items():
            sp = specials(val, backend)
            if sp:
                labs.add('class:' + POS[pid][2])
                for ch in sp:
                    labs.add('char:' + ch)
                nt.append([POS[pid][1], sp])
        need = (lambda s: True) if backend == 'make' else \
            (lambda s: any(c in s for c in ('$', ':', ' ')))
        nontrivial = nt if nt and need(
            [c for _, sp in nt for c in sp]) else None
        rec.case(labs, nontrivial=sorted(nt) if nontrivial else None,
                 sample={'values': values, 'shape': shape})
        own = ownership_violation(backend, shape)
        if own:
            rec.fail(backend + '/option-ownership', own,
                     {'values': dict(BASELINE_VALUES), 'shape': shape})
        bad = run_case(backend, values, shape)
        if bad is None:
            return
        pids, msg = bad
        pid, ch, minimal, msg2 = isolate(backend, values, shape, pids)
        key = key_for(backend, pid, ch)
        case_out = {'values': minimal if pid else values, 'shape': shape}
        rec.fail(key, msg2 or msg, case_out)
    return prop


def replay_case(backend, case, rec):
    # replay files written before a position was added lack its value
    case = dict(case, values=dict(BASELINE_VALUES, **case['values']))
    own = ownership_violation(backend, case['shape'])
    if own:
        raise Violation(backend + '/option-ownership', own, case)
    bad = run_case(backend, case['values'], case['shape'])
    if bad is not None:
        pids, msg = bad
        pid, ch, minimal, msg2 = isolate(backend, case['values'],
                                         case['shape'], pids)
        raise Violation(key_for(backend, pid, ch), msg2 or msg, case)


def selftest(backend):
    # recorder round trip: every byte except NUL survives, argv boundaries kept
    with sandbox.scratch('args') as tmp:
        log = os.path.join(tmp, 'log')
        args = [bytes(range(1, 128)).decode('latin-1'), '', 'a b', "q'q\"",
                'é日']
        env = sandbox.base_env(tmp, stub=True, extra={'VF_LOG': log,
                                                      'VFENVX': 'x y$'})
        r = sandbox.run([os.path.join(sandbox.STUBBIN, 'rec')] + args, tmp,
                        env)
        got = decode_log(sandbox.read_log(log), tmp)
        if r.rc != 0 or len(got) != 1 or got[0]['argv'][1:] != args or \
                got[0]['env'] != {'VFENVX': 'x y$'}:
            raise HarnessError('recording stub does not round-trip: {!r}'
                               .format(got))
    baseline(backend, {'wrap_children': False})
