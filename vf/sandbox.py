"""Scratch directories, fixed environments and tool drivers (DESIGN.md S5, S6)."""
import contextlib
import itertools
import json
import os
import shutil
import subprocess
import tempfile
import time

from .runner import VERIF, REPO, HarnessError

BFGBIN = os.path.join(VERIF, 'tools', 'bfgbin')
STUBBIN = os.path.join(VERIF, 'tools', 'stubbin')
REFBIN = os.path.join(VERIF, 'tools', 'bin')
BFG = os.path.join(BFGBIN, 'bfg9000')
TOOL_TIMEOUT = int(os.environ.get('VF_TOOL_TIMEOUT', '300'))

_counter = itertools.count()


def scratch_root():
    return os.environ.get('VF_TMP') or os.environ.get('TMPDIR') or '/tmp'


@contextlib.contextmanager
def scratch(prefix='vf'):
    d = tempfile.mkdtemp(prefix='{}.{}.'.format(prefix, os.getpid()),
                         dir=scratch_root())
    try:
        yield d
    finally:
        shutil.rmtree(d, ignore_errors=True)


def base_env(home, path_extra=(), extra=None, stub=False):
    """A complete, fixed environment: nothing leaks in from the caller."""
    path = list(path_extra) + [REFBIN]
    if stub:
        path.append(STUBBIN)
    path += [BFGBIN, '/venv/bin', '/usr/local/bin', '/usr/bin', '/bin']
    env = {
        'PATH': os.pathsep.join(path),
        'HOME': home,
        'LC_ALL': 'C.UTF-8',
        'LANG': 'C.UTF-8',
        'TZ': 'UTC',
        'VF_REPO': REPO,
        'PYTHONDONTWRITEBYTECODE': '1',
        'PYTHONHASHSEED': os.environ.get('PYTHONHASHSEED', '0'),
    }
    if extra:
        env.update(extra)
    return env


class Result:
    def __init__(self, argv, rc, out, err):
        self.argv, self.rc, self.out, self.err = argv, rc, out, err

    def __repr__(self):
        return 'Result(rc={}, out={!r}, err={!r})'.format(
            self.rc, self.out[-2000:], self.err[-2000:])


def run(argv, cwd, env, input=None, timeout=None):
    try:
        p = subprocess.run(argv, cwd=cwd, env=env, input=input,
                           stdout=subprocess.PIPE, stderr=subprocess.PIPE,
                           timeout=timeout or TOOL_TIMEOUT)
    except subprocess.TimeoutExpired:
        raise HarnessError('tool timed out: {!r} in {}'.format(argv, cwd))
    return Result(argv, p.returncode,
                  p.stdout.decode('utf-8', 'surrogateescape'),
                  p.stderr.decode('utf-8', 'surrogateescape'))


def run_bfg(args, cwd, env, launcher=BFG, timeout=None):
    return run([launcher] + list(args), cwd, env, timeout=timeout)


def configure(srcdir, builddir, env, backend='make', extra=(), cwd=None,
              launcher=BFG):
    args = ['configure-into', srcdir, builddir, '--backend=' + backend,
            '--no-resolve-packages'] + list(extra)
    return run_bfg(args, cwd or srcdir, env, launcher)


MAKEGUARD = os.path.join(VERIF, 'tools', 'makeguard.mk')


def run_make(builddir, env, targets=(), extra=()):
    # tools/makeguard.mk turns an endless chain of make re-executions (a
    # Makefile that never becomes up to date) into an error after 8 restarts
    env = dict(env, MAKEFILES=MAKEGUARD)
    return run(['make', '--no-print-directory'] + list(extra) + list(targets),
               builddir, env)


def run_ninja(builddir, env, targets=(), extra=()):
    return run([os.path.join(REFBIN, 'ninja')] + list(extra) + list(targets),
               builddir, env)


def run_backend(backend, builddir, env, targets=(), extra=()):
    if backend == 'make':
        return run_make(builddir, env, targets, extra)
    return run_ninja(builddir, env, targets, extra)


# --------------------------------------------------------------------------
# clock discipline (S6)

class Clock:
    """Owns mtime order inside one scratch tree: tick() returns only once a
    fresh file's mtime is strictly greater than anything seen before."""

    def __init__(self, root):
        self.probe = os.path.join(root, '.vf_clock')
        self.last = 0
        self.tick()

    def _stamp(self):
        with open(self.probe, 'w') as f:
            f.write('x')
        return os.stat(self.probe).st_mtime_ns

    def observe(self, *trees):
        for t in trees:
            for dp, dn, fn in os.walk(t):
                for n in fn + dn:
                    try:
                        m = os.lstat(os.path.join(dp, n)).st_mtime_ns
                    except OSError:
                        continue
                    if m > self.last:
                        self.last = m

    def tick(self, *trees):
        self.observe(*trees)
        for _ in range(100000):
            m = self._stamp()
            if m > self.last:
                self.last = m
                return m
            time.sleep(0.001)
        raise HarnessError('clock did not advance')


def write_file(path, content, mode=None):
    os.makedirs(os.path.dirname(path) or '.', exist_ok=True)
    if isinstance(content, str):
        content = content.encode('utf-8')
    with open(path, 'wb') as f:
        f.write(content)
    if mode is not None:
        os.chmod(path, mode)


def snapshot(root, content=False):
    """{relative path: (kind, size, mtime_ns[, bytes])} of a tree."""
    out = {}
    for dp, dn, fn in os.walk(root):
        for n in dn + fn:
            p = os.path.join(dp, n)
            rel = os.path.relpath(p, root)
            st = os.lstat(p)
            if os.path.islink(p):
                out[rel] = ('l', os.readlink(p))
            elif os.path.isdir(p):
                out[rel] = ('d',)
            else:
                v = ('f', st.st_size, st.st_mtime_ns)
                if content:
                    with open(p, 'rb') as f:
                        v = v + (f.read(),)
                out[rel] = v
    return out


def read_log(path):
    """JSON-lines log written by the recording stubs."""
    out = []
    if not os.path.exists(path):
        return out
    with open(path, 'rb') as f:
        for line in f:
            line = line.strip()
            if line:
                out.append(json.loads(line.decode('utf-8', 'surrogateescape')))
    return out
