"""Runner shared by all checks (DESIGN.md S1, S8).

    ./check <ID> [--tier quick|thorough] [--replay FILE] [--only TASK] [--jobs N]

A property module (vf/props/cNN.py) exposes

    ID, LEVEL, RULE, ASSUMPTIONS, TECHNIQUE
    def tasks(tier) -> [Task(...)]
    def replay(task_name, case, rec) -> None      (raises Violation)
    def selftest() -> None                         (optional, raises on failure)

Each Task is executed as `shards` independent jobs in a process pool.  A job is
a pure function of (working tree of the repo, VERIF_SEED, tier, shard index).

Exit status: 0 held, 1 violation (line "VIOLATION property=<id> replay=<path>"),
2 harness / environment error (never a verdict).
"""
import argparse
import collections
import hashlib
import importlib
import json
import multiprocessing
import os
import sys
import time
import traceback

VERIF = os.path.dirname(os.path.dirname(os.path.abspath(__file__)))
REPO = os.environ.get('VF_REPO', '/repo')
if REPO not in sys.path:
    sys.path.insert(0, REPO)

MAX_SAMPLES = 8


class Violation(Exception):
    """The property is violated on `case`.  `key` names the specific input
    class / call site / history (used to match known findings)."""

    def __init__(self, key, message, case=None):
        super().__init__('{}: {}'.format(key, message))
        self.key = key
        self.message = message
        self.case = case


class HarnessError(Exception):
    pass


def stable_hash(obj):
    return hashlib.sha1(
        json.dumps(obj, sort_keys=True, default=repr).encode('utf-8',
                                                             'surrogatepass')
    ).hexdigest()[:16]


def match_known(key, patterns):
    import fnmatch
    return any(key == p or fnmatch.fnmatchcase(key, p) for p in patterns)


class Task:
    def __init__(self, name, fn, quick, thorough, shards=16, **kwargs):
        self.name = name
        self.fn = fn                 # fn(rec, seed, budget, **kwargs)
        self.quick = quick           # total budget (cases) in the quick tier
        self.thorough = thorough
        self.shards = shards
        self.kwargs = kwargs


class Rec:
    """Per-job recorder of what was actually generated."""

    def __init__(self, prop_id, task, open_keys):
        self.prop_id = prop_id
        self.task = task
        self.open_keys = set(open_keys)
        self.evaluations = 0
        self.nontrivial = set()
        self.classes = collections.Counter()
        self.samples = []
        self.excluded_known = 0
        self.known_hits = collections.Counter()
        self.violations = []         # [{key, message, case}]
        self.exhaustive = None
        self.notes = {}

    def case(self, labels=(), nontrivial=None, sample=None):
        """Record one evaluated case.  `nontrivial` is None for a trivial case,
        otherwise a JSON-able value identifying the case up to distinctness."""
        self.evaluations += 1
        for lab in labels:
            self.classes[lab] += 1
        if nontrivial is not None:
            self.nontrivial.add(stable_hash(nontrivial))
            if sample is not None and len(self.samples) < MAX_SAMPLES:
                self.samples.append(sample)

    def excluded(self, n=1):
        self.excluded_known += n

    def is_open(self, key):
        """Open known findings may be written as glob patterns over keys
        (e.g. "make/*/'" = a single quote in any role of the Make
        backend)."""
        return match_known(key, self.open_keys)

    def fail(self, key, message, case=None):
        """Report a violation.  Returns (after counting) when `key` is an open
        known finding, raises Violation otherwise."""
        if match_known(key, self.open_keys):
            self.known_hits[key] += 1
            return
        raise Violation(key, message, case)

    def result(self):
        return {
            'task': self.task,
            'evaluations': self.evaluations,
            'nontrivial': sorted(self.nontrivial),
            'classes': dict(self.classes),
            'samples': self.samples,
            'excluded_known': self.excluded_known,
            'known_hits': dict(self.known_hits),
            'violations': self.violations,
            'exhaustive': self.exhaustive,
            'notes': self.notes,
        }


def exc_origin(exc):
    """('repo'|'harness', 'Type@file:func') for the innermost frame of exc that
    lies in the repository under test or in the harness."""
    tb = traceback.extract_tb(exc.__traceback__)
    repo_real = os.path.realpath(REPO)
    for fr in reversed(tb):
        fn = os.path.realpath(fr.filename)
        if fn.startswith(repo_real + os.sep):
            rel = os.path.relpath(fn, repo_real)
            return 'repo', '{}@{}:{}'.format(type(exc).__name__, rel, fr.name)
        if fn.startswith(VERIF + os.sep):
            rel = os.path.relpath(fn, VERIF)
            return 'harness', '{}@{}:{}'.format(type(exc).__name__, rel,
                                                fr.name)
    return 'harness', type(exc).__name__


# --------------------------------------------------------------------------
# Hypothesis helper

def run_hypothesis(rec, strategy, prop, max_examples, seed, shrink=True,
                   crash_is_violation=True):
    """Drive prop(case) over `strategy`.  prop raises Violation (or calls
    rec.fail).  Any other exception whose innermost relevant frame is inside
    the repository under test is a violation keyed by its origin; one that
    originates in the harness is a HarnessError."""
    import hypothesis
    from hypothesis import given, settings, HealthCheck, Phase

    if max_examples <= 0:
        return
    state = {'last': None}

    def wrapped(case):
        try:
            prop(case)
        except Violation as v:
            if v.case is None:
                v.case = case
            state['last'] = v
            raise
        except HarnessError:
            raise
        except hypothesis.errors.HypothesisException:
            raise
        except Exception as e:
            where, origin = exc_origin(e)
            if where == 'repo' and crash_is_violation:
                key = 'exception/' + origin
                if match_known(key, rec.open_keys):
                    rec.known_hits[key] += 1
                    return
                v = Violation(key, ''.join(traceback.format_exception_only(
                    type(e), e)).strip(), case)
                state['last'] = v
                raise v from e
            raise HarnessError('{}: {}'.format(origin, traceback.format_exc()))

    phases = [Phase.explicit, Phase.generate, Phase.target]
    if shrink:
        phases.append(Phase.shrink)
    test = given(strategy)(wrapped)
    test = hypothesis.seed(seed)(test)
    test = settings(
        max_examples=max_examples, database=None, deadline=None,
        derandomize=False, report_multiple_bugs=False, phases=phases,
        suppress_health_check=list(HealthCheck), print_blob=False,
    )(test)
    try:
        test()
    except Violation:
        v = state['last']
        rec.violations.append({'key': v.key, 'message': v.message,
                               'case': v.case})
    except HarnessError:
        raise
    except hypothesis.errors.HypothesisException as e:
        raise HarnessError('hypothesis: {!r}'.format(e))


def run_machine(rec, machine_cls, max_examples, steps, seed, shrink=False):
    """Run a RuleBasedStateMachine.  The machine records its own history in
    self.history (a JSON-able list) and raises Violation."""
    import hypothesis
    from hypothesis import settings, HealthCheck, Phase
    from hypothesis.stateful import run_state_machine_as_test

    if max_examples <= 0:
        return
    phases = [Phase.explicit, Phase.generate, Phase.target]
    if shrink:
        phases.append(Phase.shrink)
    st = settings(
        max_examples=max_examples, stateful_step_count=steps, database=None,
        deadline=None, derandomize=False, report_multiple_bugs=False,
        phases=phases, suppress_health_check=list(HealthCheck),
        print_blob=False,
    )
    holder = {'last': None}
    machine_cls._vf_holder = holder
    machine_cls._vf_rec = rec
    try:
        run_state_machine_as_test(hypothesis.seed(seed)(machine_cls),
                                  settings=st)
    except Violation as v:
        v = holder['last'] or v
        if match_known(v.key, rec.open_keys):
            rec.known_hits[v.key] += 1      # an open known finding
        else:
            rec.violations.append({'key': v.key, 'message': v.message,
                                   'case': v.case})
    except HarnessError:
        raise
    except hypothesis.errors.HypothesisException as e:
        raise HarnessError('hypothesis: {!r}'.format(e))
    except Exception as e:
        where, origin = exc_origin(e)
        if where == 'repo':
            key = 'exception/' + origin
            if match_known(key, rec.open_keys):
                rec.known_hits[key] += 1
                return
            last = holder['last']
            rec.violations.append({
                'key': key, 'message': repr(e),
                'case': last.case if last else None})
        else:
            raise HarnessError('{}: {}'.format(origin,
                                               traceback.format_exc()))


# --------------------------------------------------------------------------
# Known findings

def load_known(prop_id):
    path = os.path.join(VERIF, 'known_findings.json')
    if not os.path.exists(path):
        return []
    with open(path) as f:
        data = json.load(f)
    return [e for e in data.get('findings', []) if e['property'] == prop_id]


# --------------------------------------------------------------------------
# Job execution

def _job(args):
    prop_id, task_name, shard, seed, budget, open_keys, tier = args
    os.environ['VERIF_TIER'] = tier
    mod = importlib.import_module('vf.props.' + prop_id.lower())
    task = next(t for t in mod.tasks(tier) if t.name == task_name)
    rec = Rec(prop_id, task_name, open_keys)
    t0 = time.time()
    try:
        task.fn(rec, seed, budget, shard=shard, nshards=task.shards,
                **task.kwargs)
    except Violation as v:
        rec.violations.append({'key': v.key, 'message': v.message,
                               'case': v.case})
    except HarnessError as e:
        return {'task': task_name, 'harness_error': str(e)}
    except Exception:
        return {'task': task_name, 'harness_error': traceback.format_exc()}
    res = rec.result()
    res['wall_s'] = time.time() - t0
    return res


def write_replay(prop_id, task, viol):
    d = os.path.join(os.environ.get('VF_OUT', VERIF), 'replays', prop_id)
    os.makedirs(d, exist_ok=True)
    body = {'property': prop_id, 'task': task, 'key': viol['key'],
            'message': viol['message'], 'case': viol['case']}
    name = 'v-' + stable_hash([task, viol['key'], viol['case']]) + '.json'
    path = os.path.join(d, name)
    with open(path, 'w') as f:
        json.dump(body, f, indent=1, sort_keys=True, default=repr)
    return os.path.relpath(path, VERIF) if path.startswith(VERIF + os.sep) \
        else path


def do_replay(mod, path, open_keys=()):
    """Returns None if the case passes, else the Violation."""
    with open(os.path.join(VERIF, path) if not os.path.isabs(path)
              else path) as f:
        body = json.load(f)
    rec = Rec(mod.ID, body['task'], open_keys)
    try:
        mod.replay(body['task'], body['case'], rec)
    except Violation as v:
        return v
    except HarnessError:
        raise
    except Exception as e:
        where, origin = exc_origin(e)
        if where == 'repo':
            return Violation('exception/' + origin, repr(e), body['case'])
        raise
    return None


def validate_evidence(ev):
    try:
        import jsonschema
    except ImportError:
        return
    schema_path = '/root/.vp/EVIDENCE.schema.json'
    if not os.path.exists(schema_path):
        schema_path = os.path.join(VERIF, 'vf', 'EVIDENCE.schema.json')
    if not os.path.exists(schema_path):
        return
    with open(schema_path) as f:
        schema = json.load(f)
    jsonschema.validate(ev, schema)


def main(argv=None):
    ap = argparse.ArgumentParser()
    ap.add_argument('prop')
    ap.add_argument('--tier', default=os.environ.get('VERIF_TIER') or 'quick')
    ap.add_argument('--replay')
    ap.add_argument('--only', action='append')
    ap.add_argument('--jobs', type=int,
                    default=int(os.environ.get('VF_JOBS', '16')))
    ap.add_argument('--scale', type=float,
                    default=float(os.environ.get('VF_SCALE', '1')))
    args = ap.parse_args(argv)
    tier = args.tier if args.tier in ('quick', 'thorough') else 'quick'
    try:
        seed = int(os.environ.get('VERIF_SEED') or '1')
    except ValueError:
        seed = 1
    prop_id = args.prop.upper()
    os.environ['VERIF_TIER'] = tier
    t0 = time.time()

    try:
        mod = importlib.import_module('vf.props.' + prop_id.lower())
    except Exception:
        print('HARNESS-ERROR: cannot import check for', prop_id)
        traceback.print_exc()
        return 2

    known = load_known(prop_id)
    open_entries = [e for e in known if e['status'] == 'open']
    open_keys = [e['key'] for e in open_entries]

    if args.replay:
        try:
            v = do_replay(mod, args.replay)
        except Exception:
            print('HARNESS-ERROR: replay failed to run')
            traceback.print_exc()
            return 2
        if v is None:
            print('replay passed: property holds on', args.replay)
            return 0
        print('replay fails: key={} {}'.format(v.key, v.message))
        print('VIOLATION property={} replay={}'.format(prop_id, args.replay))
        return 1

    try:
        if hasattr(mod, 'selftest'):
            mod.selftest()
    except Exception:
        print('HARNESS-ERROR: self-test of the harness failed')
        traceback.print_exc()
        return 2

    # Known findings: replay each open one, and each fixed one (regression).
    violations = []
    known_lines = []
    try:
        for e in known:
            if not e.get('replay'):
                continue
            # other open findings do not mask the one being replayed
            v = do_replay(mod, e['replay'],
                          [k for k in open_keys if k != e['key']])
            if e['status'] == 'open':
                if v is not None and match_known(v.key, [e['key']]):
                    known_lines.append(
                        'KNOWN-FINDING: property={} {} [{}]'.format(
                            prop_id, e['what'], e['key']))
                elif v is not None:
                    violations.append({'task': 'known-replay', 'key': v.key,
                                       'message': v.message, 'case': v.case,
                                       'replay': e['replay']})
            else:
                if v is not None:
                    violations.append({'task': 'fixed-regression',
                                       'key': v.key, 'message': v.message,
                                       'case': v.case, 'replay': e['replay']})
        # inputs kept because a seeded change needed exactly them: replayed
        # in every run so that catching it does not depend on the seed
        import glob
        for path in sorted(glob.glob(os.path.join(
                VERIF, 'replays', prop_id, 'core-*.json'))):
            rel = os.path.relpath(path, VERIF)
            v = do_replay(mod, rel, list(open_keys))
            if v is not None and not match_known(v.key, list(open_keys)):
                violations.append({'task': 'core-replay', 'key': v.key,
                                   'message': v.message, 'case': v.case,
                                   'replay': rel})
    except Exception:
        print('HARNESS-ERROR: known-finding replay failed to run')
        traceback.print_exc()
        return 2
    for line in known_lines:
        print(line)

    tasks = mod.tasks(tier)
    if args.only:
        tasks = [t for t in tasks if t.name in args.only]
    jobs = []
    for t in tasks:
        total = t.quick if tier == 'quick' else t.thorough
        total = int(total * args.scale)
        per = max(1, -(-total // t.shards)) if total > 0 else 0
        for shard in range(t.shards):
            jobs.append((prop_id, t.name, shard, seed * 1000 + shard, per,
                         open_keys, tier))

    results = []
    harness_errors = []
    if jobs:
        ctx = multiprocessing.get_context('fork')
        with ctx.Pool(min(args.jobs, len(jobs))) as pool:
            for res in pool.imap_unordered(_job, jobs, chunksize=1):
                if 'harness_error' in res:
                    harness_errors.append(res)
                else:
                    results.append(res)

    if harness_errors:
        for h in harness_errors[:3]:
            print('HARNESS-ERROR: task {}:\n{}'.format(h['task'],
                                                       h['harness_error']))
        return 2

    # merge
    per_task = collections.OrderedDict()
    nontrivial = set()
    classes = collections.Counter()
    samples = []
    evaluations = 0
    excluded = 0
    known_hits = collections.Counter()
    exhaustive = []
    notes = {}
    for res in sorted(results, key=lambda r: r['task']):
        pt = per_task.setdefault(res['task'], {
            'evaluations': 0, 'distinct_nontrivial': set(), 'wall_s': 0.0})
        pt['evaluations'] += res['evaluations']
        pt['distinct_nontrivial'].update(
            res['task'] + ':' + h for h in res['nontrivial'])
        pt['wall_s'] = max(pt['wall_s'], res['wall_s'])
        evaluations += res['evaluations']
        nontrivial.update(res['task'] + ':' + h for h in res['nontrivial'])
        for k, v in res['classes'].items():
            classes[res['task'] + '/' + k] += v
        excluded += res['excluded_known']
        for k, v in res['known_hits'].items():
            known_hits[k] += v
        if res['exhaustive'] is not None:
            exhaustive.append((res['task'], res['exhaustive']))
        for k, v in res['notes'].items():
            notes.setdefault(res['task'], {})[k] = v
        for v in res['violations']:
            v = dict(v)
            v['task'] = res['task']
            violations.append(v)
    # samples: round-robin across tasks
    by_task = collections.OrderedDict()
    for res in results:
        by_task.setdefault(res['task'], []).extend(res['samples'])
    while len(samples) < 10 and any(by_task.values()):
        for k in list(by_task):
            if by_task[k]:
                samples.append({'task': k, 'case': by_task[k].pop(0)})

    # de-duplicate violations by key, write replays
    seen = set()
    lines = []
    for v in violations:
        if (v['task'], v['key']) in seen:
            continue
        seen.add((v['task'], v['key']))
        path = v.get('replay') or write_replay(prop_id, v['task'], v)
        lines.append((v, path))

    task_exh = dict(exhaustive)
    ev = {
        'property_id': prop_id,
        'tier': tier,
        'seed': seed,
        'level': mod.LEVEL,
        'coverage': {
            'evaluations': evaluations,
            'distinct_nontrivial': len(nontrivial),
            'rule': mod.RULE,
            'samples': samples,
            'classes': dict(sorted(classes.items())),
            'per_task': {k: {'evaluations': v['evaluations'],
                             'distinct_nontrivial':
                                 len(v['distinct_nontrivial']),
                             'wall_s': round(v['wall_s'], 2),
                             'exhaustive': bool(task_exh.get(k, False))}
                         for k, v in per_task.items()},
            'excluded_known': excluded,
            'known_finding_hits': dict(known_hits),
            'known_findings_reported': known_lines,
            'exhaustive': bool(exhaustive) and all(
                task_exh.get(k, False) for k in per_task),
            'notes': notes,
            'trusted_base': getattr(mod, 'TRUSTED_BASE', []),
        },
        'assumptions': list(getattr(mod, 'ASSUMPTIONS', [])),
        'wall_s': round(time.time() - t0, 2),
        'violations': len(lines),
    }
    try:
        validate_evidence(ev)
    except Exception as e:
        if not lines:
            print('HARNESS-ERROR: evidence does not validate:', e)
            return 2
        # a run that stopped early on a violation may have explored too
        # little for valid evidence; the violation is still the verdict
        print('note: evidence of this violating run does not validate '
              '(stopped early)')
    evdir = os.path.join(os.environ.get('VF_OUT', VERIF), 'evidence')
    os.makedirs(evdir, exist_ok=True)
    with open(os.path.join(evdir, prop_id + '.json'), 'w') as f:
        json.dump(ev, f, indent=1, sort_keys=True, default=repr)
        f.write('\n')

    print('{} tier={} seed={} evaluations={} distinct_nontrivial={} '
          'excluded_known={} wall={:.1f}s'.format(
              prop_id, tier, seed, evaluations, len(nontrivial), excluded,
              time.time() - t0))
    for v, path in lines:
        print('  key={} task={}: {}'.format(v['key'], v['task'],
                                            str(v['message'])[:600]))
        print('VIOLATION property={} replay={}'.format(prop_id, path))
    return 1 if lines else 0


if __name__ == '__main__':
    try:
        rc = main()
    except SystemExit:
        raise
    except BaseException:
        print('HARNESS-ERROR: runner crashed')
        traceback.print_exc()
        rc = 2
    sys.exit(rc)
