"""Project model for dependency-graph properties (C03, C06): a generated DAG
of steps, its rendering as build.bfg + source tree, and the *reference model*
(which files each step consumes/produces) the oracles are computed from.

Nothing here uses bfg9000 code: output names follow the documented naming
rules (object_file -> <stem>.o, executable N -> N with objects in N.int/,
static_library N -> libN.a, shared_library N -> libN.so, objects in
libN.int/).
"""
import os
import posixpath

from hypothesis import strategies as st

from . import sandbox

S = 'S:'    # file in the source directory
B = 'B:'    # file in the build directory


@st.composite
def projects(draw, max_steps=9, allow_always=True, allow_clash=False):
    nsrc = draw(st.integers(2, 6))
    sources = []
    for i in range(nsrc):
        d = draw(st.sampled_from(['', '', 'sub/']))
        sources.append('{}s{}.c'.format(d, i))
    headers = ['h{}.h'.format(i) for i in range(draw(st.sampled_from(
        [0, 1, 2, 2, 3])))]
    data = ['d{}.txt'.format(i) for i in range(draw(st.integers(0, 2)))]
    steps = []
    used_obj_sources = set()
    nsteps = draw(st.integers(2, max_steps))

    def file_refs(kinds):
        """References to files usable as inputs, by kind tag."""
        out = []
        for s in sources:
            if 'c' in kinds:
                out.append(['src', s])
        if 'h' in kinds:
            out += [['src', h] for h in headers]
        if 'd' in kinds:
            out += [['src', d] for d in data]
        for st_ in steps:
            k = st_['kind']
            if k == 'step':
                for j, o in enumerate(st_['outs']):
                    if o.endswith('.h'):
                        if 'H' in kinds:
                            out.append(['out', st_['id'], j])
                    elif o.endswith('.c') and 'c' in kinds:
                        out.append(['out', st_['id'], j])
                    elif not o.endswith('.c') and 'd' in kinds:
                        out.append(['out', st_['id'], j])
            elif k == 'obj' and 'o' in kinds:
                out.append(['out', st_['id'], 0])
            elif k == 'copy' and 'd' in kinds:
                out.append(['out', st_['id'], 0])
            elif k in ('exe', 'slib', 'shlib') and 'b' in kinds:
                out.append(['out', st_['id'], 0])
            elif k in ('alias', 'command') and 'p' in kinds:
                out.append(['out', st_['id'], 0])
        return out

    def pick(refs, lo, hi):
        if not refs:
            return []
        n = draw(st.integers(min(lo, len(refs)), min(hi, len(refs))))
        idx = draw(st.lists(st.integers(0, len(refs) - 1), min_size=n,
                            max_size=n, unique=True))
        return [refs[i] for i in idx]

    prelude = draw(st.sampled_from(['', '', 'chain', 'diamond']))
    pch_by_name_used = False
    for sid in range(nsteps):
        if prelude and sid < 3 and len(sources) >= 3:
            # a static chain / diamond: requirements of static libraries are
            # forwarded to whatever finally links them
            kind = ['slib', 'slib', 'exe' if prelude == 'chain' else
                    'shlib'][sid]
            step = {'id': sid, 'kind': kind, 'name': kind + str(sid),
                    'files': [['src', sources[sid]]],
                    'libs': [] if sid == 0 else [sid - 1], 'extra': [],
                    'outs': [], 'always': False}
            steps.append(step)
            continue
        kind = draw(st.sampled_from(
            ['obj', 'exe', 'exe', 'slib', 'shlib', 'step', 'step', 'copy',
             'alias', 'command']))
        step = {'id': sid, 'kind': kind, 'name': '{}{}'.format(kind, sid),
                'files': [], 'libs': [], 'extra': [], 'outs': [],
                'always': False}
        if kind == 'obj':
            cands = [r for r in file_refs('c')
                     if tuple(r) not in used_obj_sources]
            if not cands:
                continue
            step['files'] = pick(cands, 1, 1)
            used_obj_sources.add(tuple(step['files'][0]))
            if draw(st.integers(0, 1)) == 0:
                step['hdrs'] = pick(file_refs('H'), 1, 2)
        elif kind in ('exe', 'slib', 'shlib'):
            raw = pick(file_refs('c'), 0, 2)
            objs = pick(file_refs('o'), 0, 2)
            if not raw and not objs:
                raw = pick(file_refs('c'), 1, 1)
            step['files'] = raw + objs
            libs = [s['id'] for s in steps if s['kind'] in ('slib', 'shlib')]
            if libs:
                n = draw(st.integers(0, min(2, len(libs))))
                step['libs'] = sorted(draw(st.lists(
                    st.sampled_from(libs), min_size=n, max_size=n,
                    unique=True)))
            if draw(st.integers(0, 3)) == 0:
                step['name'] = 'bin/' + step['name']
            if kind == 'shlib' and draw(st.integers(0, 2)) == 0:
                # real file + soname link + link-time name
                step['versioned'] = True
            if len(raw) >= 2 and draw(st.integers(0, 2)) == 0:
                # prerequisites of every object of the target
                step['cextra'] = pick(file_refs('hd'), 1, 2)
            # explicitly passed (generated) headers: includes=[...]
            if draw(st.integers(0, 2)) > 0:
                step['hdrs'] = pick(file_refs('H'), 1, 2)
            # a precompiled header given by name (the step is created
            # implicitly; one source only, see the C05 finding)
            if len(raw) == 1 and len(headers) >= 2 and \
                    not pch_by_name_used and draw(st.integers(0, 1)) == 0:
                step['pchname'] = headers[-1]
                pch_by_name_used = True
                if not step.get('hdrs') and file_refs('H'):
                    step['hdrs'] = pick(file_refs('H'), 1, 2)
        elif kind == 'step':
            nout = draw(st.sampled_from([1, 1, 2, 3]))
            step['outs'] = [
                'g{}_{}.{}'.format(sid, j, draw(st.sampled_from(
                    ['c', 'txt', 'txt', 'h', 'h'])))
                for j in range(nout)]
            k = draw(st.integers(0, 5))
            if k == 0:
                step['outs'] = ['gen/' + o for o in step['outs']]
            elif k == 2:
                # the same base names as another step's, in its own directory
                step['outs'] = ['d{}/tbl_{}{}'.format(
                    sid, j, posixpath.splitext(o)[1])
                    for j, o in enumerate(step['outs'])]
            elif k == 1 and nout > 1:
                # outputs in different directories (some used by nothing
                # else), the first one in the build root
                step['outs'] = [step['outs'][0]] + [
                    'only{}_{}/'.format(sid, j) + o
                    for j, o in enumerate(step['outs'][1:])]
            step['files'] = pick(file_refs('cdhb'), 0, 3)
            step['two_lines'] = draw(st.integers(0, 2)) == 0
            # command lines that rely on the shell state the previous line
            # left behind (the working directory)
            step['state_lines'] = draw(st.integers(0, 3)) == 0
            step['cmd_refs'] = draw(st.booleans())
            if step['cmd_refs'] and not step['files']:
                step['files'] = pick(file_refs('cdhb'), 1, 2)
            step['always'] = allow_always and draw(st.integers(
                0, 7 if nout == 1 else 3)) == 0
        elif kind == 'copy':
            cands = file_refs('d') or file_refs('h') or file_refs('c')
            step['files'] = pick(cands, 1, 1)
            step['name'] = 'copied/c{}.dat'.format(sid)
            step['mode'] = draw(st.sampled_from(
                ['copy', 'copy', 'symlink', 'hardlink']))
        elif kind == 'alias':
            step['extra'] = pick([r for r in file_refs('bdop')
                                  if r[0] == 'out'], 0, 3)
        elif kind == 'command':
            # the dependencies may be handed over as files= (and named on
            # the command line through command.input); only files qualify
            step['via_files'] = draw(st.booleans())
            step['extra'] = pick(
                [r for r in file_refs('bd' if step['via_files'] else 'bdp')
                 if r[0] == 'out'], 0, 2)
        if kind in ('obj', 'exe', 'slib', 'shlib', 'step') and \
                draw(st.integers(0, 2)) == 0:
            step['extra'] = pick(file_refs('hd'), 0, 2)
        steps.append(step)

    bins = [s['id'] for s in steps if s['kind'] in ('exe', 'slib', 'shlib')]
    exes = [s['id'] for s in steps if s['kind'] == 'exe']
    model = {'sources': sources, 'headers': headers, 'data': data,
             'steps': steps, 'default': None, 'install': [], 'tests': [],
             'driver_tests': [], 'nested_driver_tests': []}
    if draw(st.integers(0, 2)) == 0:
        cands = [s['id'] for s in steps
                 if s['kind'] in ('exe', 'slib', 'shlib', 'step', 'copy',
                                  'obj')]
        if cands:
            n = draw(st.integers(1, min(2, len(cands))))
            model['default'] = sorted(draw(st.lists(
                st.sampled_from(cands), min_size=n, max_size=n, unique=True)))
    if exes and draw(st.integers(0, 2)) == 0:
        model['tests'] = [draw(st.sampled_from(exes))]
    # tests handed to a test driver (and to a driver nested in it)
    rest = [e for e in exes if e not in model['tests']]
    if rest and draw(st.integers(0, 2)) == 0:
        model['driver_tests'] = [draw(st.sampled_from(rest))]
        rest = [e for e in rest if e not in model['driver_tests']]
        if rest and draw(st.booleans()):
            model['nested_driver_tests'] = [draw(st.sampled_from(rest))]
    if bins and draw(st.integers(0, 3)) == 0:
        model['install'] = [draw(st.sampled_from(bins))]
    files_ = [s['id'] for s in steps if s['kind'] in ('exe', 'step', 'copy')]
    if allow_clash and files_ and draw(st.integers(0, 11)) == 0:
        # an invalid script: a named target declared after a step that
        # already produces a file of that name (must be rejected)
        model['clash'] = [draw(st.sampled_from(files_)),
                          draw(st.sampled_from(['alias', 'command',
                                                'step-first',
                                                'step-second']))]
    return model


# --------------------------------------------------------------------------
# naming rules and the reference graph

def step_by_id(model):
    return {s['id']: s for s in model['steps']}


def out_name(model, step, k=0):
    kind = step['kind']
    if kind == 'obj':
        f = ref_file(model, step['files'][0])
        return posixpath.splitext(f[2:])[0] + '.o'
    if kind == 'exe':
        return step['name']
    if kind == 'slib':
        d, n = posixpath.split(step['name'])
        return posixpath.join(d, 'lib' + n + '.a')
    if kind == 'shlib':
        d, n = posixpath.split(step['name'])
        return posixpath.join(d, 'lib' + n + '.so')
    if kind == 'step':
        return step['outs'][k]
    if kind == 'copy':
        return step['name']
    return step['name']          # alias / command (phony)


def int_dir(step):
    d, n = posixpath.split(step['name'])
    if step['kind'] == 'exe':
        return posixpath.join(d, n + '.int')
    return posixpath.join(d, 'lib' + n + '.int')


def implicit_object(step, f):
    """Object of raw source f compiled for a link step: the source's stem
    path relative to the directory of the binary, below <name>.int/, with
    parent references spelled PAR (documented naming)."""
    d = posixpath.dirname(step['name'])
    rel = posixpath.relpath(posixpath.splitext(f[2:])[0], d or '.')
    rel = '/'.join('PAR' if c == '..' else c for c in rel.split('/'))
    return posixpath.join(int_dir(step), rel + '.o')


def ref_file(model, ref):
    """'S:path' / 'B:path' / 'P:name' (phony) for a reference."""
    if ref[0] == 'src':
        return S + ref[1]
    st_ = step_by_id(model)[ref[1]]
    if st_['kind'] in ('alias', 'command'):
        return 'P:' + st_['name']
    return B + out_name(model, st_, ref[2])


def reference_graph(model):
    """List of model steps: {'key', 'inputs': set, 'outputs': [..],
    'phony', 'always', 'runs'} where runs says whether a process is started."""
    g = []
    for st_ in model['steps']:
        kind = st_['kind']
        extra = {ref_file(model, r) for r in st_['extra']}
        hdrs = {ref_file(model, r) for r in st_.get('hdrs', [])}
        if kind == 'obj':
            o = out_name(model, st_)
            g.append({'key': 'out:' + o, 'sid': st_['id'],
                      'inputs': {ref_file(model, st_['files'][0])} | extra |
                      hdrs,
                      'outputs': [B + o], 'phony': False, 'always': False,
                      'runs': True})
        elif kind in ('exe', 'slib', 'shlib'):
            objs = set()
            pch = set()
            cextra = {ref_file(model, r) for r in st_.get('cextra', [])}
            if st_.get('pchname'):
                # documented naming: <header>.gch in the build directory
                o = st_['pchname'] + '.gch'
                g.append({'key': 'out:' + o, 'sid': st_['id'],
                          'inputs': {S + st_['pchname']} | hdrs,
                          'outputs': [B + o], 'phony': False,
                          'always': False, 'runs': True})
                pch = {B + o}
            for r in st_['files']:
                f = ref_file(model, r)
                if f.endswith('.o'):
                    objs.add(f)
                else:
                    o = implicit_object(st_, f)
                    g.append({'key': 'out:' + o, 'sid': st_['id'],
                              'inputs': {f} | hdrs | pch | cextra,
                              'outputs': [B + o],
                              'phony': False, 'always': False, 'runs': True})
                    objs.add(B + o)
            byid = step_by_id(model)
            libs = set()
            optional = set()

            def add_libs(ids, forwarded):
                for i in ids:
                    f = B + out_name(model, byid[i])
                    (optional if forwarded and kind == 'slib'
                     else libs).add(f)
                    # requirements of a static library are forwarded to the
                    # binary that finally links it
                    if byid[i]['kind'] == 'slib':
                        add_libs(byid[i]['libs'], True)
            if kind == 'slib':
                # an archive does not contain its libs: whether it is
                # re-archived when they change is left open
                for i in st_['libs']:
                    optional.add(B + out_name(model, byid[i]))
            else:
                add_libs(st_['libs'], False)
            o = out_name(model, st_)
            if st_.get('versioned'):
                # lib.so.1.2.3 is linked; lib.so.1 -> it; lib.so -> lib.so.1
                g.append({'key': 'out:' + o + '.1.2.3', 'sid': st_['id'],
                          'inputs': objs | libs | extra,
                          'optional': optional, 'outputs': [B + o + '.1.2.3'],
                          'phony': False, 'always': False, 'runs': True})
                for name, src_ in ((o + '.1', o + '.1.2.3'), (o, o + '.1')):
                    g.append({'key': 'out:' + name, 'sid': st_['id'],
                              'inputs': {B + src_}, 'outputs': [B + name],
                              'phony': False, 'always': False, 'runs': True,
                              'transparent': True, 'link': 'symlink'})
                continue
            g.append({'key': 'out:' + o, 'sid': st_['id'],
                      'inputs': objs | libs | extra, 'optional': optional,
                      'outputs': [B + o],
                      'phony': False, 'always': False, 'runs': True})
        elif kind == 'step':
            g.append({'key': 'STEP:{}'.format(st_['id']), 'sid': st_['id'],
                      'inputs': {ref_file(model, r)
                                 for r in st_['files']} | extra,
                      'outputs': [B + o for o in st_['outs']],
                      'phony': False, 'always': st_['always'], 'runs': True})
        elif kind == 'copy':
            g.append({'key': 'out:' + st_['name'], 'sid': st_['id'],
                      'inputs': {ref_file(model, st_['files'][0])} | extra,
                      'outputs': [B + st_['name']], 'phony': False,
                      'always': False, 'runs': True,
                      # a link has the time stamp of the file it points to:
                      # it need not be re-made when that file changes, yet
                      # its consumers see the change
                      'transparent': st_.get('mode', 'copy') != 'copy',
                      'link': (st_.get('mode') if st_.get('mode', 'copy') !=
                               'copy' else None)})
        elif kind == 'alias':
            g.append({'key': 'ALIAS:' + st_['name'], 'sid': st_['id'],
                      'inputs': extra, 'outputs': ['P:' + st_['name']],
                      'phony': True, 'always': False, 'runs': False})
        elif kind == 'command':
            g.append({'key': 'CMD:' + st_['name'], 'sid': st_['id'],
                      'inputs': extra, 'outputs': ['P:' + st_['name']],
                      'phony': True, 'always': True, 'runs': True})
    return g


def producers(g):
    out = {}
    for m in g:
        for o in m['outputs']:
            out[o] = m
    return out


def closure(g, goals, optional=True):
    """Model steps needed to make the goal files (optional: also follow the
    don't-care inputs)."""
    prod = producers(g)
    need = []
    seen = set()
    stack = list(goals)
    while stack:
        f = stack.pop()
        m = prod.get(f)
        if m is None or m['key'] in seen:
            continue
        seen.add(m['key'])
        need.append(m)
        stack.extend(m['inputs'])
        if optional:
            stack.extend(m.get('optional', ()))
    return need


def all_tests(model):
    return model['tests'] + model.get('driver_tests', []) + \
        model.get('nested_driver_tests', [])


def default_goals(model, g):
    byid = step_by_id(model)

    def outs_of(sid):
        st_ = byid[sid]
        if st_['kind'] == 'step':
            return [B + o for o in st_['outs']]
        return [B + out_name(model, st_)]
    explicit = []
    for sid in (model['default'] or []) + model['install']:
        explicit += outs_of(sid)
    if explicit:
        return explicit
    goals = []
    for st_ in model['steps']:
        if st_['kind'] in ('exe', 'slib', 'shlib') and \
                st_['id'] not in all_tests(model):
            goals.append(B + out_name(model, st_))
    return goals


def dirty_after_touch(need, touched, may=False, replaced=False):
    """Keys of the steps in `need` that must (may=False) or may (may=True)
    re-run after `touched` changed, with always-outdated steps re-running
    anyway.  replaced: the file was replaced by a new one (new inode), so a
    hard link to it still is the old file and has to be made again."""
    dirty = set()
    changed = {touched} if touched else set()
    progress = True
    while progress:
        progress = False
        for m in need:
            if m['key'] in dirty:
                continue
            ins = m['inputs'] | (m.get('optional', set()) if may else set())
            if m['always'] or (ins & changed):
                if m.get('transparent') and not may and not m['always'] and \
                        not (replaced and m.get('link') == 'hardlink' and
                             touched in m['inputs']):
                    if not set(m['outputs']) <= changed:
                        changed.update(m['outputs'])
                        progress = True
                    continue
                dirty.add(m['key'])
                changed.update(m['outputs'])
                progress = True
    return dirty


# --------------------------------------------------------------------------
# rendering

def render(model, src):
    for s in model['sources']:
        sandbox.write_file(os.path.join(src, s),
                           'int f_{}(void) {{ return 0; }}\n'.format(
                               posixpath.basename(s)[:-2]))
    for h in model['headers']:
        sandbox.write_file(os.path.join(src, h), '/* {} */\n'.format(h))
    for d in model['data']:
        sandbox.write_file(os.path.join(src, d), 'data {}\n'.format(d))
    if (model.get('decor') or {}).get('yacc'):
        for f in ('gram1.y', 'gram2.y', 'ymain.c'):
            sandbox.write_file(os.path.join(src, f), '/* {} */\n'.format(f))
    for i in range((model.get('decor') or {}).get('wide') or 0):
        sandbox.write_file(os.path.join(src, 'wide', 'w{}.c'.format(i)),
                           '/* w{} */\n'.format(i))
    sandbox.write_file(os.path.join(src, 'build.bfg'), script(model))


def _ref_expr(model, ref):
    if ref[0] == 'src':
        return repr(ref[1])
    st_ = step_by_id(model)[ref[1]]
    if st_['kind'] == 'step' and len(st_['outs']) > 1:
        return 'v{}[{}]'.format(ref[1], ref[2])
    return 'v{}'.format(ref[1])


def script(model):
    L = ["project('graph', version='1.0')"]
    decor = model.get('decor') or {}
    for o in decor.get('global_options', []):
        L.append("global_options({!r}, lang='c')".format(o))
    for o in decor.get('global_link_options', []):
        L.append("global_link_options({!r})".format(o))
    for h in decor.get('pch_headers', []):
        L.append('pch_{} = precompiled_header(file={!r})'.format(
            h.replace('.', '_'), h))
    for st_ in model['steps']:
        v = 'v{}'.format(st_['id'])
        kind = st_['kind']
        extra = ''
        if st_['extra'] and kind == 'command' and st_.get('via_files'):
            extra = ', files=[{}]'.format(', '.join(
                _ref_expr(model, r) for r in st_['extra']))
        elif st_['extra'] and kind not in ('alias',):
            extra = ', extra_deps=[{}]'.format(', '.join(
                _ref_expr(model, r) for r in st_['extra']))
        files = '[{}]'.format(', '.join(_ref_expr(model, r)
                                        for r in st_['files']))
        if st_.get('hdrs'):
            extra += ', includes=[{}]'.format(', '.join(
                _ref_expr(model, r) for r in st_['hdrs']))
        if st_.get('pchname'):
            extra += ', pch={!r}'.format(st_['pchname'])
        if st_.get('cextra'):
            extra += ', extra_compile_deps=[{}]'.format(', '.join(
                _ref_expr(model, r) for r in st_['cextra']))
        if kind == 'obj':
            L.append('{} = object_file(file={}{})'.format(
                v, _ref_expr(model, st_['files'][0]), extra))
        elif kind in ('exe', 'slib', 'shlib'):
            fn = {'exe': 'executable', 'slib': 'static_library',
                  'shlib': 'shared_library'}[kind]
            if kind != 'exe' and st_['id'] in decor.get('dual', []):
                fn = 'library'
            libs = ''
            if st_.get('versioned') and fn == 'shared_library':
                extra += ", version='1.2.3', soversion='1'"
            if st_.get('pch'):
                extra += ', pch=pch_{}'.format(st_['pch'].replace('.', '_'))
            if st_.get('copts'):
                extra += ', compile_options={!r}'.format(st_['copts'])
            if st_.get('lopts') and kind != 'slib':
                extra += ', link_options={!r}'.format(st_['lopts'])
            if st_['libs']:
                libs = ', libs=[{}]'.format(', '.join(
                    'v{}'.format(i) for i in st_['libs']))
            L.append('{} = {}({!r}, files={}{}{})'.format(
                v, fn, st_['name'], files, libs, extra))
        elif kind == 'step':
            outs = st_['outs'] if len(st_['outs']) > 1 else st_['outs'][0]
            cmd = ['rec', 'STEP:{}'.format(st_['id'])] + \
                ['--vf-out=' + o for o in st_['outs']]
            if st_.get('env'):
                extra += ', environment={!r}'.format(st_['env'])
            if st_.get('cmd_refs') and st_['files']:
                # the inputs are named inside the command (as file objects)
                # instead of files=; a plain shell line comes first
                refs = ', '.join(
                    'generic_file({!r})'.format(r_[1]) if r_[0] == 'src'
                    else _ref_expr(model, r_) for r_ in st_['files'])
                cmdkw = "cmds=['true', {!r} + [{}]]".format(cmd, refs)
                filekw = ''
            elif st_.get('state_lines'):
                sd = 'vf_state_{}'.format(st_['id'])
                cmdkw = 'cmds={!r}'.format(
                    [['mkdir', '-p', sd], 'cd ' + sd,
                     cmd[:2] + ['--vf-out=../' + o for o in st_['outs']]])
                filekw = ', files=' + files
            elif st_.get('two_lines'):
                # a step of two command lines (both get the environment)
                cmdkw = 'cmds={!r}'.format(
                    [cmd, ['rec', 'AUX:{}'.format(st_['id'])]])
                filekw = ', files=' + files
            else:
                cmdkw = 'cmd={!r}'.format(cmd)
                filekw = ', files=' + files
            L.append('{} = build_step({!r}, {}{}{}{})'.format(
                v, outs, cmdkw, filekw, extra,
                ', always_outdated=True' if st_['always'] else ''))
        elif kind == 'copy':
            if st_.get('mode', 'copy') != 'copy':
                extra += ', mode={!r}'.format(st_['mode'])
            L.append('{} = copy_file({!r}, {}{})'.format(
                v, st_['name'], _ref_expr(model, st_['files'][0]), extra))
        elif kind == 'alias':
            L.append('{} = alias({!r}, [{}])'.format(
                v, st_['name'], ', '.join(_ref_expr(model, r)
                                          for r in st_['extra'])))
        elif kind == 'command':
            if st_.get('env'):
                extra += ', environment={!r}'.format(st_['env'])
            tail = ', command.input' if st_['extra'] and \
                st_.get('via_files') else ''
            L.append('{} = command({!r}, cmd=["rec", "CMD:{}"{}]{})'.format(
                v, st_['name'], st_['name'], tail, extra))
    if decor.get('yacc'):
        # two grammars: one with an explicitly named single output, one with
        # the default source + header pair, in either order
        y1 = "gy1 = generated_source('y_one.c', 'gram1.y')"
        y2 = "gy2 = generated_source(file='gram2.y')"
        L += [y1, y2] if decor['yacc'] == 'one-first' else [y2, y1]
        L.append("yprog = executable('yprog', ['ymain.c', gy1, gy2[0]])")
    if decor.get('wide'):
        # steps with long input lists: an archive and a program of many units
        ws = ['wide/w{}.c'.format(i) for i in range(decor['wide'])]
        L.append("wlib = static_library('wide/wl', {!r})".format(ws[1:]))
        L.append("wprog = executable('wide/wprog', {!r})".format(ws))
    if model.get('clash'):
        st_ = step_by_id(model)[model['clash'][0]]
        if model['clash'][1] == 'alias':
            L.append('alias({!r}, [])'.format(out_name(model, st_)))
        elif model['clash'][1].startswith('step-'):
            # a second file-producing step; the contested name is its first
            # or its second output
            outs = ['vf_uncontested.out', out_name(model, st_)]
            if model['clash'][1] == 'step-first':
                outs.reverse()
            L.append('build_step({!r}, cmd=["true"])'.format(outs))
        else:
            L.append('command({!r}, cmd=["true"])'.format(
                out_name(model, st_)))
    if model['default']:
        L.append('default({})'.format(', '.join(
            'v{}'.format(i) for i in model['default'])))
    for i in model['install']:
        L.append('install(v{})'.format(i))
    for i in model['tests']:
        L.append('test(v{})'.format(i))
    if model.get('driver_tests'):
        L.append("drv = test_driver(['drv', 'D'])")
        for i in model['driver_tests']:
            L.append('test(v{}, driver=drv)'.format(i))
        if model.get('nested_driver_tests'):
            L.append("drv2 = test_driver(['drv', 'E'], parent=drv)")
            for i in model['nested_driver_tests']:
                L.append('test(v{}, driver=drv2)'.format(i))
    return '\n'.join(L) + '\n'


# --------------------------------------------------------------------------
# observing executed steps in a stub log

def _unhex(h):
    return bytes.fromhex(h).decode('utf-8', 'surrogateescape')


def executed_keys(entries):
    """Map the stub log of one build to model-step keys (with multiplicity)."""
    keys = []
    for e in entries:
        argv = [_unhex(a) for a in e['argv']]
        tool = e['tool']
        if tool in ('cc', 'c++'):
            if '-o' in argv:
                keys.append('out:' + posixpath.normpath(
                    argv[argv.index('-o') + 1]))
        elif tool == 'ar':
            keys.append('out:' + posixpath.normpath(argv[2]))
        elif tool in ('cp', 'ln'):
            keys.append('out:' + posixpath.normpath(argv[-1]))
        elif tool in ('rec', 'rec2'):
            if len(argv) > 1 and argv[1].startswith('AUX:'):
                continue        # second command line of a step
            if len(argv) > 1 and argv[1].startswith(('STEP:', 'CMD:')):
                keys.append(argv[1])
            elif len(argv) > 1:
                keys.append('REC:' + ' '.join(argv[1:]))
        else:
            keys.append('TOOL:' + tool)
    return keys


def canonical(model):
    """Shape of the DAG up to naming, for distinctness counting."""
    out = []
    for st_ in model['steps']:
        out.append([st_['kind'], len(st_['files']), len(st_['libs']),
                    len(st_['extra']), len(st_['outs']), st_['always'],
                    len(st_.get('hdrs', [])), bool(st_.get('pchname')),
                    st_.get('mode'), bool(st_.get('versioned')),
                    len(st_.get('cextra', [])),
                    sorted(r[0] if r[0] == 'src' else
                           'k' + str(step_by_id(model)[r[1]]['kind'])
                           for r in st_['files'] + st_['extra'])])
    return [out, bool(model['default']), len(model['install']),
            len(all_tests(model))]
