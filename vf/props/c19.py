"""C19 — Scripts are isolated and relative: submodules, options, user
arguments.

(A) generated trees of submodule scripts; each script logs what it can see
    (probes of names assigned elsewhere), what it receives from submodule()
    and declares targets with relative paths; the Makefile's own database
    tells which files the targets read and write.
(B) generated argument() declarations and command lines; an argparse-like
    reference model; plain vs --x- spelling metamorphism; regenerate.
"""
import json
import os
import posixpath

from hypothesis import strategies as st

from ..runner import Task, Violation, HarnessError, run_hypothesis
from .. import sandbox
from .c06 import make_relation

ID = 'C19'
LEVEL = 'exploration'
TECHNIQUE = ('property-based testing (Hypothesis): generated submodule trees '
             'with visibility probes and path oracles; reference-model and '
             'spelling-metamorphic checks of project-defined arguments')
RULE = ('(A) trees of 1-7 submodule scripts (depth <= 3, siblings, ../ '
        'references, a target-free common script included from several '
        'parents, a raising submodule whose exception the includer handles) '
        'with generated variable names, exports and relative inputs/outputs; non-trivial: depth >= 2 or a ../ reference or a '
        'repeated inclusion; distinct = tree shape + reference kinds.  (B) '
        '1-5 argument() declarations (store with type/default, store_true, '
        'enable, with; dashes in names; optionally declared under two names) '
        'x command lines using plain and --x- '
        'spellings, repeated options; non-trivial: a toggle or a dashed name '
        'given in --x- spelling; distinct = declaration kinds + spelling '
        'choices.')
LEVEL_TEXT = ('Generated-input search: explicit oracles for path '
              're-rooting (posixpath joins), export delivery (exact dict), '
              'scope isolation (NameError probes) and an independent '
              'last-one-wins model of the argument parser, plus equality of '
              'plain and --x- spellings and persistence across regenerate.')
LEVEL_NOTE = ('Trusted: GNU Make\'s database dump (`make -pq`) as the '
              'observation of target paths; json/eval inside generated '
              'scripts.')
ASSUMPTIONS = ['scripts only use the documented builtins submodule/export/'
               'copy_file/build_step/argument']

NAMES = ['alpha', 'beta', 'gamma', 'x', 'data', 'value', 'result', 'env2',
         'files', 'name', '_priv', 'Path2']
DIRS = ['sub', 'lib', 'a', 'src', 'x.y', 'b-c', 'mod']


@st.composite
def trees(draw):
    """nodes: list of {'dir': path relative to srcdir ('' = root), 'children':
    [dirs], 'vars': {name: value}, 'exports': {...}, 'up': bool,
    'common': bool}"""
    nodes = [{'dir': '', 'children': []}]
    n = draw(st.integers(1, 6))
    for _ in range(n):
        parent = draw(st.sampled_from(nodes))
        depth = parent['dir'].count('/') + (1 if parent['dir'] else 0)
        if depth >= 3:
            continue
        name = draw(st.sampled_from(DIRS))
        d = posixpath.join(parent['dir'], name)
        if any(x['dir'] == d for x in nodes):
            continue
        node = {'dir': d, 'children': []}
        parent['children'].append(d)
        nodes.append(node)
    used = set()
    for i, node in enumerate(nodes):
        node['vars'] = {}
        for _ in range(draw(st.integers(1, 3))):
            node['vars'][draw(st.sampled_from(NAMES))] = \
                'v{}_{}'.format(i, len(node['vars']))
        node['exports'] = {}
        for _ in range(draw(st.integers(0, 3))):
            k = draw(st.sampled_from(NAMES))
            node['exports'][k] = draw(st.sampled_from(
                ['str{}'.format(i), 17 + i, [i, 'l'], None]))
        # an input referenced through ../ (only for non-root scripts)
        node['up'] = bool(node['dir']) and draw(st.integers(0, 2)) == 0
        node['export_target'] = draw(st.booleans())
        # includes a submodule whose script raises, handles the exception and
        # carries on
        node['failchild'] = draw(st.integers(0, 3)) == 0
        # a versioned shared library declared in this script
        node['vlib'] = draw(st.booleans())
        if not node['dir']:
            # exports are not allowed in the root script
            node['exports'] = {}
            node['export_target'] = False
    common = None
    if len(nodes) >= 3 and draw(st.booleans()):
        # a script without targets, included from two different parents
        common = 'common'
        parents = draw(st.lists(st.sampled_from(
            [x['dir'] for x in nodes]), min_size=2, max_size=3, unique=True))
    else:
        parents = []
    return {'nodes': nodes, 'common': common, 'common_parents': parents}


def render_tree(case, src, logfile):
    nodes = case['nodes']
    allnames = sorted({k for n in nodes for k in n['vars']})
    for i, node in enumerate(nodes):
        d = node['dir']
        L = ['import json']
        if not d:
            L.append("project('c19', version='1.0')")
        L.append('_log = {{"dir": {!r}, "probes": {{}}, "received": {{}}, '
                 '"builtins": []}}'.format(d))
        foreign = [k for k in allnames if k not in node['vars']]
        L.append('for _n in {!r}:'.format(foreign))
        L.append('    try:')
        L.append('        eval(_n)')
        L.append('        _log["probes"][_n] = "visible"')
        L.append('    except NameError:')
        L.append('        _log["probes"][_n] = "NameError"')
        for k, v in node['vars'].items():
            L.append('{} = {!r}'.format(k, v))
        L.append('for _b in ["submodule", "export", "copy_file", '
                 '"build_step", "Path", "Root", "env"]:')
        L.append('    try:')
        L.append('        eval(_b)')
        L.append('        _log["builtins"].append(_b)')
        L.append('    except NameError:')
        L.append('        pass')
        tag = 'n{}'.format(i)
        L.append('_t = copy_file({!r}, {!r}, extra_deps=[{!r}])'.format(
            'out_' + tag + '.txt', 'in_' + tag + '.txt',
            'dep_' + tag + '.txt'))
        sandbox.write_file(os.path.join(src, d, 'dep_' + tag + '.txt'), 'd\n')
        sandbox.write_file(os.path.join(src, d, 'in_' + tag + '.txt'), 'x\n')
        # a header directory scanned with include=: found relative to this
        # script's directory
        sandbox.write_file(os.path.join(src, d, 'inc_' + tag, 'x.h'), '/**/\n')
        sandbox.write_file(os.path.join(src, d, 'inc_' + tag, 'sub', 'y.h'),
                           '/**/\n')
        L.append('_hd = header_directory({!r}, include="**/*.h")'.format(
            'inc_' + tag))
        L.append('_log["dirfiles"] = sorted(i.path.suffix for i in '
                 '_hd.files)')
        if node.get('vlib'):
            sandbox.write_file(os.path.join(src, d, 'v_' + tag + '.c'),
                               'int v_{}(void){{return 0;}}\n'.format(tag))
            L.append("_v = shared_library({!r}, [{!r}], version='1.2.3', "
                     "soversion='1')".format('vlib_' + tag, 'v_' + tag + '.c'))
        if node['up']:
            L.append('_u = build_step({!r}, cmd=["cp", build_step.input, '
                     'build_step.output], files=[{!r}])'.format(
                         'gen/up_' + tag + '.txt', '../shared_' + tag +
                         '.txt'))
            sandbox.write_file(os.path.join(
                src, posixpath.dirname(d), 'shared_' + tag + '.txt'), 'y\n')
        if node.get('failchild'):
            fd = 'broken_' + tag
            sandbox.write_file(os.path.join(src, d, fd, 'build.bfg'),
                               "export(never='seen')\n"
                               "raise RuntimeError('deliberate')\n")
            sandbox.write_file(os.path.join(src, d, 'late_in_' + tag + '.txt'),
                               'z\n')
            L += ['try:', '    submodule({!r})'.format(fd),
                  'except Exception:', '    _log["caught"] = True',
                  '_t2 = copy_file({!r}, {!r})'.format(
                      'late_out_' + tag + '.txt', 'late_in_' + tag + '.txt')]
        for c in node['children']:
            rel = posixpath.relpath(c, d or '.')
            L.append('_r = submodule({!r})'.format(rel))
            L.append('_log["received"][{!r}] = {{k: (v if isinstance(v, '
                     '(str, int, list, type(None))) else "<obj>") for k, v '
                     'in _r.items()}}'.format(c))
        if case['common'] and d in case['common_parents']:
            rel = posixpath.relpath(case['common'], d or '.')
            L.append('_r = submodule({!r})'.format(rel))
            L.append('_log["received"]["common"] = dict(_r)')
        # re-check own variables after the children ran
        L.append('_log["own_after"] = {}')
        for k, v in node['vars'].items():
            L.append('_log["own_after"][{!r}] = {}'.format(k, k))
        ex = dict(node['exports'])
        if ex or node['export_target']:
            args = ', '.join('{}={!r}'.format(k, v) for k, v in ex.items())
            if node['export_target']:
                args += (', ' if args else '') + 'target_obj=_t'
            L.append('export({})'.format(args))
        L.append('with open({!r}, "a") as _f:'.format(logfile))
        L.append('    _f.write(json.dumps(_log) + "\\n")')
        sandbox.write_file(os.path.join(src, d, 'build.bfg'),
                           '\n'.join(L) + '\n')
    if case['common']:
        sandbox.write_file(
            os.path.join(src, 'common', 'build.bfg'),
            'import json\n_p = {{}}\nfor _n in ["common_var", "_p2"]:\n'
            '    try:\n        eval(_n)\n        _p[_n] = "visible"\n'
            '    except NameError:\n        _p[_n] = "NameError"\n'
            'common_var = 1\n_p2 = 2\nexport(shared="from-common")\n'
            'with open({!r}, "a") as _f:\n    _f.write(json.dumps({{"dir": '
            '"common", "probes": _p, "received": {{}}, "builtins": [], '
            '"own_after": {{}}}}) + "\\n")\n'.format(logfile))


def prop_submodules(rec):
    def prop(case):
        nodes = case['nodes']
        depth = max(n['dir'].count('/') + (1 if n['dir'] else 0)
                    for n in nodes)
        ups = sum(1 for n in nodes if n['up'])
        labs = {'depth={}'.format(depth), 'nodes={}'.format(len(nodes))}
        if ups:
            labs.add('has-dotdot')
        if case['common']:
            labs.add('repeated-inclusion')
        if any(n.get('failchild') for n in nodes):
            labs.add('handled-failing-submodule')
        rec.case(labs, nontrivial=(
            [sorted(n['dir'].count('/') + (1 if n['dir'] else 0)
                    for n in nodes), ups, len(case['common_parents']),
             sorted(len(n['exports']) for n in nodes)]
            if depth >= 2 or ups or case['common'] else None), sample=case)
        with sandbox.scratch('c19') as tmp:
            src = os.path.join(tmp, 'src')
            bld = os.path.join(tmp, 'bld')
            logfile = os.path.join(tmp, 'script.log')
            os.makedirs(src)
            render_tree(case, src, logfile)
            env = sandbox.base_env(os.path.join(tmp, 'home'))
            r = sandbox.configure(src, bld, env, backend='make')
            if r.rc != 0:
                raise Violation('sub/configure-failed', r.err.strip()[-800:],
                                case)
            logs = {}
            count = {}
            with open(logfile) as f:
                for line in f:
                    d = json.loads(line)
                    logs[d['dir']] = d
                    count[d['dir']] = count.get(d['dir'], 0) + 1
                    if d['dir'] == 'common' and 'visible' in \
                            d['probes'].values():
                        raise Violation(
                            'sub/scope-leak/repeated-inclusion', 'execution '
                            '#{} of the script included from several parents '
                            'sees the variables of an earlier execution: {}'
                            .format(count['common'], d['probes']), case)
            for i, node in enumerate(nodes):
                d = node['dir']
                if count.get(d) != 1:
                    raise Violation('sub/executed', 'script {!r} executed {} '
                                    'times'.format(d, count.get(d, 0)), case)
                lg = logs[d]
                leaked = sorted(k for k, v in lg['probes'].items()
                                if v != 'NameError')
                if leaked:
                    raise Violation('sub/scope-leak', 'script {!r} can see '
                                    'the variables {} assigned in other '
                                    'scripts'.format(d, leaked), case)
                if lg['own_after'] != node['vars']:
                    raise Violation('sub/own-variables', 'script {!r}: own '
                                    'variables changed by a submodule: {!r}'
                                    .format(d, lg['own_after']), case)
                wantfiles = sorted(posixpath.join(d, 'inc_n{}'.format(i), f)
                                   for f in ('x.h', 'sub/y.h'))
                if lg.get('dirfiles') != wantfiles:
                    raise Violation('sub/paths-directory-scan', 'script {!r}: '
                                    'header_directory(\'inc_n{}\', include=) '
                                    'found {!r}, expected {!r}'.format(
                                        d, i, lg.get('dirfiles'), wantfiles),
                                    case)
                if len(lg['builtins']) != 7:
                    raise Violation('sub/builtins', 'script {!r} only sees '
                                    'builtins {}'.format(d, lg['builtins']),
                                    case)
                for c in node['children']:
                    child = next(n for n in nodes if n['dir'] == c)
                    want = {k: (list(v) if isinstance(v, list) else v)
                            for k, v in child['exports'].items()}
                    if child['export_target']:
                        want['target_obj'] = '<obj>'
                    if lg['received'].get(c) != want:
                        raise Violation('sub/exports', 'submodule({!r}) '
                                        'returned {!r} to {!r}, the child '
                                        'exported {!r}'.format(
                                            c, lg['received'].get(c), d,
                                            want), case)
                if case['common'] and d in case['common_parents'] and \
                        lg['received'].get('common') != \
                        {'shared': 'from-common'}:
                    raise Violation('sub/exports-common', '{!r} received '
                                    '{!r} from the common script'.format(
                                        d, lg['received'].get('common')),
                                    case)
            if case['common'] and count.get('common') != \
                    len(case['common_parents']):
                raise Violation('sub/executed', 'common script executed {} '
                                'times for {} inclusions'.format(
                                    count.get('common'),
                                    len(case['common_parents'])), case)
            rel = make_relation(bld, src, env)
            for i, node in enumerate(nodes):
                d = node['dir']
                tag = 'n{}'.format(i)
                out = 'B:' + posixpath.join(d, 'out_' + tag + '.txt')
                inp = 'S:' + posixpath.join(d, 'in_' + tag + '.txt')
                if inp not in rel.get(out, set()):
                    raise Violation('sub/paths', 'copy_file in script {!r}: '
                                    'expected target {} reading {}; the '
                                    'Makefile has {}'.format(
                                        d, out, inp, sorted(
                                            (k, sorted(v)) for k, v in
                                            rel.items() if tag in k)), case)
                dep = 'S:' + posixpath.join(d, 'dep_' + tag + '.txt')
                if dep not in rel.get(out, set()):
                    if d and 'S:dep_' + tag + '.txt' in rel.get(out, set()):
                        # known finding: string extra_deps are resolved
                        # against the top source directory
                        rec.fail('sub/extra_deps-not-relative',
                                 'extra_deps=[{!r}] in submodule {!r} became '
                                 'a dependency on $(srcdir)/{} instead of '
                                 '$(srcdir)/{}'.format(
                                     'dep_' + tag + '.txt', d,
                                     'dep_' + tag + '.txt', dep[2:]), case)
                        rec.excluded()
                    else:
                        raise Violation('sub/paths-extra-deps', 'copy_file in '
                                        '{!r}: expected dependency {}; the '
                                        'Makefile has {}'.format(
                                            d, dep, sorted(rel.get(out, []))),
                                        case)
                if node.get('vlib'):
                    base = posixpath.join(d, 'libvlib_' + tag + '.so')
                    for name in (base, base + '.1', base + '.1.2.3'):
                        if 'B:' + name not in rel:
                            raise Violation(
                                'sub/paths-versioned-library', 'script {!r} '
                                'declares a versioned shared library: no rule '
                                'for {} in the matching build sub-directory; '
                                'rules: {}'.format(d, name, sorted(
                                    k for k in rel if 'vlib_' + tag in k)),
                                case)
                if node.get('failchild'):
                    if not logs[d].get('caught'):
                        raise Violation('sub/failing-submodule', 'script {!r}:'
                                        ' the exception raised by a submodule '
                                        'did not reach the including script'
                                        .format(d), case)
                    out = 'B:' + posixpath.join(d, 'late_out_' + tag + '.txt')
                    inp = 'S:' + posixpath.join(d, 'late_in_' + tag + '.txt')
                    if inp not in rel.get(out, set()):
                        raise Violation(
                            'sub/paths-after-failed-submodule', 'copy_file in '
                            'script {!r} after a submodule that raised: '
                            'expected target {} reading {}; the Makefile has '
                            '{}'.format(d, out, inp, sorted(
                                (k, sorted(v)) for k, v in rel.items()
                                if tag in k)), case)
                if node['up']:
                    out = 'B:' + posixpath.join(d, 'gen/up_' + tag + '.txt')
                    inp = 'S:' + posixpath.normpath(posixpath.join(
                        d, '../shared_' + tag + '.txt'))
                    flat = 'B:gen/up_' + tag + '.txt'
                    if out not in rel and flat in rel and d:
                        # known finding: build_step outputs are rooted at the
                        # top build directory, not the submodule's
                        rec.fail('sub/build_step-output-not-relative',
                                 'build_step({!r}) in submodule {!r} produces '
                                 '{} instead of {}'.format(
                                     'gen/up_' + tag + '.txt', d, flat, out),
                                 case)
                        rec.excluded()
                        out = flat
                    if inp not in rel.get(out, set()):
                        raise Violation('sub/paths-up', 'build_step in '
                                        'script {!r}: expected {} reading {}; '
                                        'the Makefile has {}'.format(
                                            d, out, inp, sorted(
                                                (k, sorted(v)) for k, v in
                                                rel.items() if tag in k)),
                                        case)
    return prop


# --------------------------------------------------------------------------
# (B) project-defined arguments

ARGNAMES = ['name', 'level', 'my-opt', 'feat', 'foo-bar', 'gui', 'tests',
            'n', 'xml', 'x11', 'xx']


@st.composite
def arg_cases(draw):
    names = draw(st.lists(st.sampled_from(ARGNAMES), min_size=1, max_size=5,
                          unique=True))
    decls = []
    for n in names:
        kind = draw(st.sampled_from(['store', 'store_int', 'store_true',
                                     'enable', 'with']))
        d = {'name': n, 'kind': kind}
        if draw(st.integers(0, 2)) == 0:
            d['alias'] = 'alt-' + n      # declared under two names
        if kind == 'store':
            d['default'] = draw(st.sampled_from([None, 'dflt', 'a b']))
        elif kind == 'store_int':
            d['default'] = draw(st.sampled_from([None, 3]))
        elif kind in ('enable', 'with'):
            d['default'] = draw(st.booleans())
        decls.append(d)
    uses = []
    for d in decls:
        for _ in range(draw(st.sampled_from([0, 1, 1, 2]))):
            u = {'name': d['name'], 'x': draw(st.booleans())}
            if d.get('alias') and draw(st.booleans()):
                u['via'] = d['alias']
            if d['kind'] == 'store':
                u['value'] = draw(st.sampled_from(['v1', 'two words', 'é',
                                                   '-dash', '']))
                u['eq'] = draw(st.booleans()) or u['value'].startswith('-')
            elif d['kind'] == 'store_int':
                u['value'] = str(draw(st.integers(-3, 40)))
                u['eq'] = draw(st.booleans()) or u['value'].startswith('-')
            elif d['kind'] in ('enable', 'with'):
                u['on'] = draw(st.booleans())
            uses.append(u)
    uses = draw(st.permutations(uses))
    return {'decls': decls, 'uses': list(uses),
            'cwd': draw(st.sampled_from(['src', 'root', 'bld'])),
            # how many of the declarations live in options scripts included
            # from options.bfg (one and two levels down)
            'nested': draw(st.integers(0, len(decls)))}


def dest(name):
    return name.replace('-', '_')


def options_script(decls):
    L = []
    for d in decls:
        n = repr(d['name'])
        if d.get('alias'):
            n += ', ' + repr(d['alias'])
        if d['kind'] == 'store':
            L.append('argument({}, default={!r})'.format(n, d['default']))
        elif d['kind'] == 'store_int':
            L.append('argument({}, type=int, default={!r})'.format(
                n, d['default']))
        elif d['kind'] == 'store_true':
            L.append("argument({}, action='store_true')".format(n))
        else:
            L.append('argument({}, action={!r}, default={!r})'.format(
                n, d['kind'], d['default']))
    return '\n'.join(L) + '\n'


def command_line(case, flip=False):
    byname = {d['name']: d for d in case['decls']}
    out = []
    for u in case['uses']:
        d = byname[u['name']]
        x = (not u['x']) if flip else u['x']
        pre = '--x-' if x else '--'
        name = u.get('via', u['name'])
        if d['kind'] in ('store', 'store_int'):
            if u['eq']:
                out.append('{}{}={}'.format(pre, name, u['value']))
            else:
                out += [pre + name, u['value']]
        elif d['kind'] == 'store_true':
            out.append(pre + name)
        else:
            word = {('enable', True): 'enable-', ('enable', False): 'disable-',
                    ('with', True): 'with-', ('with', False): 'without-'}[
                        (d['kind'], u['on'])]
            out.append(pre + word + name)
    return out


def model_namespace(case):
    ns = {}
    for d in case['decls']:
        if d['kind'] == 'store_true':
            ns[dest(d['name'])] = False
        else:
            ns[dest(d['name'])] = d['default']
    byname = {d['name']: d for d in case['decls']}
    for u in case['uses']:
        d = byname[u['name']]
        if d['kind'] == 'store':
            ns[dest(u['name'])] = u['value']
        elif d['kind'] == 'store_int':
            ns[dest(u['name'])] = int(u['value'])
        elif d['kind'] == 'store_true':
            ns[dest(u['name'])] = True
        else:
            ns[dest(u['name'])] = u['on']
    return ns


DUMP_BFG = """\
project('c19args', version='1.0')
import json
with open(env.builddir.append('argv.json').string(), 'w') as _f:
    json.dump(vars(argv), _f, sort_keys=True)
command('noop', cmd=['true'])
"""


def prop_args(rec):
    def prop(case):
        byname = {d['name']: d for d in case['decls']}
        xtoggle = any(u['x'] and (byname[u['name']]['kind'] in
                                  ('enable', 'with') or '-' in u['name'])
                      for u in case['uses'])
        labs = {'kind:' + d['kind'] for d in case['decls']}
        if any(u['x'] for u in case['uses']):
            labs.add('x-spelling')
        if case.get('nested'):
            labs.add('nested-options-scripts')
        rec.case(labs, nontrivial=(
            [sorted((d['kind'], '-' in d['name']) for d in case['decls']),
             sorted((byname[u['name']]['kind'], u['x'], u.get('on'))
                    for u in case['uses'])] if xtoggle else None),
            sample=case)
        want = model_namespace(case)
        with sandbox.scratch('c19a') as tmp:
            src = os.path.join(tmp, 'src')
            os.makedirs(src)
            sandbox.write_file(os.path.join(src, 'build.bfg'), DUMP_BFG)
            k = len(case['decls']) - case.get('nested', 0)
            top, inner = case['decls'][:k], case['decls'][k:]
            if inner:
                # root -> opts/core -> opts/extra (named relative to core)
                mid = inner[:(len(inner) + 1) // 2]
                low = inner[len(mid):]
                sandbox.write_file(
                    os.path.join(src, 'options.bfg'),
                    options_script(top[:1]) + "submodule('opts/core')\n" +
                    options_script(top[1:]))
                sandbox.write_file(
                    os.path.join(src, 'opts', 'core', 'options.bfg'),
                    options_script(mid) + ("submodule('../extra')\n"
                                           if low else ''))
                if low:
                    sandbox.write_file(
                        os.path.join(src, 'opts', 'extra', 'options.bfg'),
                        options_script(low))
            else:
                sandbox.write_file(os.path.join(src, 'options.bfg'),
                                   options_script(case['decls']))
            env = sandbox.base_env(os.path.join(tmp, 'home'))
            results = {}
            for flip in (False, True):
                bld = os.path.join(tmp, 'bld{}'.format(int(flip)))
                r = sandbox.configure(src, bld, env, backend='make',
                                      extra=command_line(case, flip))
                if r.rc != 0:
                    raise Violation(
                        'args/rejected/' + ('flipped' if flip else 'given'),
                        'configure rejected {!r}: {}'.format(
                            command_line(case, flip), r.err.strip()[-500:]),
                        case)
                with open(os.path.join(bld, 'argv.json')) as f:
                    results[flip] = json.load(f)
            if results[False] != want:
                raise Violation('args/model', 'command line {!r} gave argv '
                                '{!r}, expected {!r}'.format(
                                    command_line(case), results[False], want),
                                case)
            if results[True] != results[False]:
                raise Violation('args/spelling', 'plain and --x- spellings '
                                'differ: {!r} -> {!r} but {!r} -> {!r}'.format(
                                    command_line(case), results[False],
                                    command_line(case, True), results[True]),
                                case)
            # later regenerations see the configure-time values
            bld = os.path.join(tmp, 'bld0')
            os.unlink(os.path.join(bld, 'argv.json'))
            cwd = {'src': src, 'root': '/', 'bld': bld}[case['cwd']]
            env2 = sandbox.base_env(os.path.join(tmp, 'home2'),
                                    extra={'UNRELATED': '1'})
            r = sandbox.run_bfg(['regenerate', bld], cwd, env2)
            if r.rc != 0:
                raise Violation('args/regenerate-failed',
                                r.err.strip()[-500:], case)
            with open(os.path.join(bld, 'argv.json')) as f:
                again = json.load(f)
            if again != want:
                raise Violation('args/regenerate', 'regenerate saw argv {!r}, '
                                'configure saw {!r}'.format(again, want), case)
    return prop


def _run_sub(rec, seed, budget, shard, nshards):
    run_hypothesis(rec, trees(), prop_submodules(rec), budget, seed,
                   shrink=(os.environ.get('VERIF_TIER') == 'thorough'))


def _run_args(rec, seed, budget, shard, nshards):
    run_hypothesis(rec, arg_cases(), prop_args(rec), budget, seed,
                   shrink=(os.environ.get('VERIF_TIER') == 'thorough'))


def tasks(tier):
    return [Task('submodules', _run_sub, quick=16 * 10, thorough=16 * 300),
            Task('arguments', _run_args, quick=16 * 6, thorough=16 * 200)]


def replay(task, case, rec):
    if task == 'submodules':
        prop_submodules(rec)(case)
    elif task == 'arguments':
        prop_args(rec)(case)
    else:
        raise HarnessError('unknown task ' + task)
