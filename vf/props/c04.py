"""C04 — File names with special characters denote the same file in the build
tool.

A generated path component is placed in one *role* of a small project (source
file, header reached only through #include, explicit outputs, output
directory, submodule directory, find_files hit, walked directory); the project
is configured and driven through a fixed protocol with the real gcc: build
(the file must appear at exactly the intended path), build again (no-op),
touch the oddly named prerequisite (the consuming step must re-run), clean.

Representability (the property excludes names the target format cannot
express) is established at run time per name and backend with a hand-written
reference build file that uses the best escaping known for the tool."""
import os
import string
import subprocess

from hypothesis import strategies as st

from ..runner import Task, Violation, HarnessError, run_hypothesis
from .. import sandbox

ID = 'C04'
LEVEL = 'exploration'
TECHNIQUE = ('property-based testing (Hypothesis) plus an exhaustive '
             'single-character sweep: behavioural protocol (create / no-op / '
             'rebuild-on-touch / clean) with run-time representability '
             'calibration against hand-written reference build files')
RULE = ('Path components over printable ASCII incl. space and \' " $ # % & ( '
        ') * ? [ ] : , @ ! + ~ { } ; = | < > ^ ` (no / or \\, no leading '
        'one-letter-plus-colon, not . or ..), length 1-6, in seventeen roles '
        '(source, header, exe/build_step/two-output build_step/copy_file output, '
        '120 copy_file outputs at once, '
        'output directory, '
        'submodule directory, find_files hit, walked directory with and '
        'without a hit, include '
        'directory given per target and through global_options) x {make, '
        'ninja}.  Names the reference build file cannot make work are '
        'excluded and counted.  Non-trivial: the name has a character '
        'outside [A-Za-z0-9_.-]; distinct = (backend, role, set of special '
        'characters).  The sweep task enumerates ab<c>c for every printable '
        'ASCII character c, and <c>ab for the characters ~ - = + @ # . : % ! '
        '& ^ , in every role and backend.')
LEVEL_TEXT = ('Generated-input search with a behavioural oracle and run-time '
              'calibration: whenever a hand-written build file can make the '
              'backend tool handle the name, the build file written by '
              'bfg9000 must handle it too in all four protocol steps.')
LEVEL_NOTE = ('Trusted: GNU Make 4.3, the reference Ninja evaluator (not '
              'ninja itself), gcc 12 (its own depfile escaping), the '
              'hand-written reference build files of this module.')
ASSUMPTIONS = ['the header role additionally excludes " (C include syntax)']

ROLES = ['source', 'topobj', 'objhdr', 'header', 'exe', 'step', 'multistep',
         'copy', 'linkto', 'bulk',
         'outdir',
         'submodule',
         'findfile', 'finddir', 'walkdir', 'incdir', 'gincdir']
SAFE = set(string.ascii_letters + string.digits + '_.-')
ALPHABET = [c for c in map(chr, range(32, 127)) if c not in '/\\']


def valid_name(n):
    # (bfg9000 takes any character followed by a colon at the start of a
    # path for a drive prefix and says so when configuring)
    return (n not in ('', '.', '..') and not (len(n) > 1 and n[1] == ':') and
            '/' not in n and '\\' not in n)


# character sequences that mean something in the build tools' own languages
TOKENS = ['${x}', '${in}', '${out}', '$x', '$in', '$$', '$@', '$<', '$^',
          '$(x)', '$(@D)', '%.c', '%%', '$ ', ' $', '$:', '#{x}', '{a,b}']


@st.composite
def names(draw):
    k = draw(st.integers(0, 4))
    if k == 4:
        n = draw(st.sampled_from(['', 'a', 'ab'])) + \
            draw(st.sampled_from(TOKENS)) + draw(st.sampled_from(['', 'c']))
    elif k == 0:
        n = 'xy' + draw(st.sampled_from(ALPHABET)) + 'z'
    elif k == 1:
        n = draw(st.sampled_from(ALPHABET)) + draw(st.sampled_from(
            ['a', 'ab']))
    else:
        n = ''.join(draw(st.lists(st.sampled_from(
            ALPHABET + list('abc') * 6), min_size=1, max_size=6)))
    if not valid_name(n):
        n = 'n' + n.replace(':', '_')
    return n


def specials(n):
    return sorted({c for c in n if c not in SAFE})


# --------------------------------------------------------------------------
# protocol helpers

def mtime(p):
    try:
        return os.stat(p).st_mtime_ns
    except OSError:
        return None


class Proto:
    """One project in a scratch dir and the four-step protocol."""

    def __init__(self, tmp, backend):
        self.tmp, self.backend = tmp, backend
        self.src = os.path.join(tmp, 'src')
        self.bld = os.path.join(tmp, 'bld')
        self.env = sandbox.base_env(os.path.join(tmp, 'home'))
        self.clock = None

    def build(self, targets=('all',)):
        self.clock.tick(self.tmp)
        self.nbuild = getattr(self, 'nbuild', 0) + 1
        # (a build file that keeps regenerating itself fails after 6 rounds
        # instead of running into a time-out)
        env = dict(self.env, VF_BFG_MAX='6', VF_BFGLOG=os.path.join(
            self.tmp, 'bfg.log.{}'.format(self.nbuild)))
        return sandbox.run_backend(self.backend, self.bld, env,
                                   list(targets))

    def run(self, products, touched, rebuilt, fail, walked=None):
        """products: files that must exist after the build; touched: the
        prerequisite to touch; rebuilt: files whose mtime must then change."""
        self.clock = sandbox.Clock(self.tmp)
        b = self.build()
        if b.rc != 0:
            fail('build', 'the first build failed: ' +
                 (b.err + b.out).strip()[-500:])
        for p in products:
            if not os.path.exists(p):
                fail('create', '{} was not created at the intended path; '
                     'build directory holds {}'.format(
                         os.path.relpath(p, self.bld),
                         sorted(sandbox.snapshot(self.bld))[:12]))
        before = {p: mtime(p) for p in rebuilt}
        b2 = self.build()
        if b2.rc != 0:
            fail('noop', 'the second build failed: ' +
                 (b2.err + b2.out).strip()[-500:])
        for p in rebuilt:
            if mtime(p) != before[p]:
                fail('noop', '{} was rebuilt although nothing changed'.format(
                    os.path.relpath(p, self.bld)))
        if walked:
            # a walked directory changes without changing what was found:
            # the build file checks, keeps itself, and must stay usable
            t = self.clock.tick(self.tmp)
            sandbox.write_file(os.path.join(walked, 'unrelated.note'), 'n\n')
            os.utime(walked, ns=(t, t))
            for attempt in (1, 2):
                bw = self.build()
                if bw.rc != 0:
                    fail('walk', 'build #{} after an unrelated file '
                         'appeared in the walked directory failed: {}'.format(
                             attempt, (bw.err + bw.out).strip()[-500:]))
            for p in rebuilt:
                if mtime(p) != before[p]:
                    fail('walk', '{} was rebuilt although only an unrelated '
                         'file appeared in a walked directory'.format(
                             os.path.relpath(p, self.bld)))
        t = self.clock.tick(self.tmp)
        os.utime(touched, ns=(t, t))
        b3 = self.build()
        if b3.rc != 0:
            fail('touch', 'the build after touching {} failed: {}'.format(
                os.path.relpath(touched, self.tmp),
                (b3.err + b3.out).strip()[-500:]))
        for p in rebuilt:
            if mtime(p) == before[p]:
                fail('touch', '{} was not rebuilt after {} changed'.format(
                    os.path.relpath(p, self.bld),
                    os.path.relpath(touched, self.tmp)))
        c = sandbox.run_backend(self.backend, self.bld, self.env, ['clean'])
        if c.rc != 0:
            fail('clean', 'clean failed: ' + (c.err + c.out).strip()[-500:])
        for p in products:
            if os.path.exists(p):
                fail('clean', 'clean left {}'.format(
                    os.path.relpath(p, self.bld)))


def render(role, n, src):
    """Write the project; returns (products, touched, rebuilt) relative to
    ('B', path) build dir or ('S', path) source dir."""
    w = sandbox.write_file
    main7 = 'int main(void){return 0;}\n'
    if role == 'source':
        w(os.path.join(src, n + '.c'), 'int f(void){return 0;}\n')
        w(os.path.join(src, 'main.c'), 'int f(void);\nint main(void)'
          '{return f();}\n')
        w(os.path.join(src, 'build.bfg'),
          "executable('prog', ['main.c', {!r}])\n".format(n + '.c'))
        obj = ('B', 'prog.int/' + n + '.o')
        return [obj, ('B', 'prog')], ('S', n + '.c'), [obj]
    if role == 'topobj':
        # an object file at the top of the build directory, input of a link
        w(os.path.join(src, n + '.c'), 'int f(void){return 0;}\n')
        w(os.path.join(src, 'main.c'), 'int f(void);\nint main(void)'
          '{return f();}\n')
        w(os.path.join(src, 'build.bfg'),
          "o = object_file(file={!r})\nexecutable('prog', ['main.c', o])\n"
          .format(n + '.c'))
        obj = ('B', n + '.o')
        return [obj, ('B', 'prog')], ('S', n + '.c'), [obj, ('B', 'prog')]
    if role == 'objhdr':
        # the name is part of an object's path; a header it includes changes
        w(os.path.join(src, 'h.h'), '#define V 0\n')
        w(os.path.join(src, 'main.c'), '#include "h.h"\nint main(void)'
          '{return V;}\n')
        w(os.path.join(src, 'build.bfg'),
          "executable({!r}, ['main.c'])\n".format(n + '/prog'))
        obj = ('B', n + '/prog.int/PAR/main.o')
        return [obj, ('B', n + '/prog')], ('S', 'h.h'), [obj]
    if role == 'header':
        w(os.path.join(src, n + '.h'), '#define V 0\n')
        w(os.path.join(src, 'main.c'), '#include "{}.h"\nint main(void)'
          '{{return V;}}\n'.format(n))
        w(os.path.join(src, 'build.bfg'),
          "executable('prog', ['main.c'])\n")
        obj = ('B', 'prog.int/main.o')
        return [obj, ('B', 'prog')], ('S', n + '.h'), [obj]
    if role == 'exe':
        w(os.path.join(src, 'main.c'), main7)
        w(os.path.join(src, 'build.bfg'),
          "executable({!r}, ['main.c'])\n".format(n))
        return [('B', n)], ('S', 'main.c'), [('B', n)]
    if role == 'step':
        w(os.path.join(src, 'in.dat'), 'x\n')
        w(os.path.join(src, 'build.bfg'),
          "o = build_step({!r}, cmd=['cp', build_step.input, "
          "build_step.output], files=['in.dat'])\ndefault(o)\n".format(
              n + '.txt'))
        return [('B', n + '.txt')], ('S', 'in.dat'), [('B', n + '.txt')]
    if role == 'multistep':
        # a step with two outputs (Make: stamp file + outputs rule)
        w(os.path.join(src, 'in.dat'), 'x\n')
        w(os.path.join(src, 'build.bfg'),
          "o = build_step([{!r}, {!r}], cmd=['sh', '-c', 'cp \"$0\" \"$1\" && "
          "cp \"$0\" \"$2\"', build_step.input, build_step.output[0], "
          "build_step.output[1]], files=['in.dat'])\ndefault(o[1])\n".format(
              n + '.one', n + '.two'))
        outs = [('B', n + '.one'), ('B', n + '.two')]
        return outs, ('S', 'in.dat'), outs
    if role == 'copy':
        w(os.path.join(src, 'in.dat'), 'x\n')
        w(os.path.join(src, 'build.bfg'),
          "o = copy_file({!r}, 'in.dat')\ndefault(o)\n".format(n + '.dat'))
        return [('B', n + '.dat')], ('S', 'in.dat'), [('B', n + '.dat')]
    if role == 'linkto':
        # a symbolic link in a sub-directory pointing to the named source
        # file and one named like it pointing to another file
        w(os.path.join(src, n + '.dat'), 'x\n')
        w(os.path.join(src, 'plain.dat'), 'y\n')
        w(os.path.join(src, 'build.bfg'),
          "a = copy_file('links/to.lnk', {!r}, mode='symlink')\n"
          "b = copy_file({!r}, 'plain.dat', mode='symlink')\n"
          "default(a, b)\n".format(n + '.dat', 'links/' + n + '.lnk'))
        return ([('B', 'links/to.lnk'), ('B', 'links/' + n + '.lnk')],
                ('S', n + '.dat'), [])
    if role == 'bulk':
        # many outputs with the name (anything that treats long lists of
        # files differently from short ones)
        w(os.path.join(src, 'in.dat'), 'x\n')
        w(os.path.join(src, 'build.bfg'),
          "default(*[copy_file({!r} + str(i) + '.dat', 'in.dat') "
          "for i in range(120)])\n".format(n + '_'))
        outs = [('B', '{}_{}.dat'.format(n, i)) for i in range(120)]
        return outs, ('S', 'in.dat'), outs[:3] + outs[-3:]
    if role == 'outdir':
        w(os.path.join(src, 'main.c'), main7)
        w(os.path.join(src, 'build.bfg'),
          "executable({!r}, ['main.c'])\n".format(n + '/prog'))
        return [('B', n + '/prog')], ('S', 'main.c'), [('B', n + '/prog')]
    if role == 'submodule':
        w(os.path.join(src, n, 's.c'), main7)
        w(os.path.join(src, n, 'build.bfg'),
          "executable('subprog', ['s.c'])\n")
        w(os.path.join(src, 'build.bfg'), "submodule({!r})\n".format(n))
        return ([('B', n + '/subprog')], ('S', n + '/s.c'),
                [('B', n + '/subprog')])
    if role == 'findfile':
        w(os.path.join(src, 'tree', n + '.c'), 'int f(void){return 0;}\n')
        w(os.path.join(src, 'main.c'), 'int f(void);\nint main(void)'
          '{return f();}\n')
        w(os.path.join(src, 'build.bfg'),
          "executable('prog', ['main.c'] + find_files('tree/*.c'))\n")
        obj = ('B', 'prog.int/tree/' + n + '.o')
        return [obj, ('B', 'prog')], ('S', 'tree/' + n + '.c'), [obj]
    if role == 'finddir':
        w(os.path.join(src, 'tree', n, 'f.c'), 'int f(void){return 0;}\n')
        w(os.path.join(src, 'main.c'), 'int f(void);\nint main(void)'
          '{return f();}\n')
        w(os.path.join(src, 'build.bfg'),
          "executable('prog', ['main.c'] + find_files('tree/**/*.c'))\n")
        obj = ('B', 'prog.int/tree/' + n + '/f.o')
        return [obj, ('B', 'prog')], ('S', 'tree/' + n + '/f.c'), [obj]
    if role == 'walkdir':
        # a directory that find_files walks without finding anything in it:
        # its name only occurs in the record of walked directories
        w(os.path.join(src, 'tree', n, 'readme.txt'), 'r\n')
        w(os.path.join(src, 'tree', 'f.c'), 'int f(void){return 0;}\n')
        w(os.path.join(src, 'main.c'), 'int f(void);\nint main(void)'
          '{return f();}\n')
        w(os.path.join(src, 'build.bfg'),
          "executable('prog', ['main.c'] + find_files('tree/**/*.c'))\n")
        obj = ('B', 'prog.int/tree/f.o')
        return [obj, ('B', 'prog')], ('S', 'tree/f.c'), [obj]
    if role in ('incdir', 'gincdir'):
        # an include directory: a command argument of every compile step (per
        # target or through the global flags) and part of a depfile entry
        w(os.path.join(src, n, 'h.h'), '#define V 0\n')
        w(os.path.join(src, 'main.c'), '#include "h.h"\nint main(void)'
          '{return V;}\n')
        if role == 'incdir':
            w(os.path.join(src, 'build.bfg'),
              "executable('prog', ['main.c'], includes=[header_directory("
              "{!r})])\n".format(n + '/'))
        else:
            w(os.path.join(src, 'build.bfg'),
              "global_options([opts.include_dir(header_directory({!r}))], "
              "lang='c')\nexecutable('prog', ['main.c'])\n".format(n + '/'))
        obj = ('B', 'prog.int/main.o')
        return [obj, ('B', 'prog')], ('S', n + '/h.h'), [obj]
    raise KeyError(role)


# --------------------------------------------------------------------------
# representability calibration with hand-written reference build files

_MAKE_ESC = ' #%:*?[]~|\\;='


def _make_escape(n):
    out = []
    for c in n:
        if c == '$':
            out.append('$$')
        elif c in ' #%:*?[]|\\':
            out.append('\\' + c)
        else:
            out.append(c)
    s = ''.join(out)
    if s.startswith('~'):
        s = '\\' + s
    return s


def _make_vars(n):
    table = {' ': 'SP', '#': 'HASH', '%': 'PCT', ':': 'COL', ';': 'SEMI',
             '=': 'EQ', ',': 'COMMA', '(': 'LP', ')': 'RP', '$': 'DOL',
             '*': 'STAR', '?': 'QM', '[': 'LB', ']': 'RB', '|': 'PIPE',
             '~': 'TILDE', '\t': 'TAB', '{': 'LC', '}': 'RC', "'": 'SQ',
             '"': 'DQ', '&': 'AMP', '!': 'BANG', '<': 'LT', '>': 'GT',
             '`': 'BT', '^': 'CARET', '@': 'AT', '+': 'PLUS'}
    return ''.join('$({})'.format(table[c]) if c in table else c for c in n)


_MAKE_VARDEFS = (
    'E :=\nSP := $(E) $(E)\nHASH := \\#\nPCT := \\%\nCOL := \\:\nSEMI := ;\n'
    'EQ := =\nCOMMA := ,\nLP := (\nRP := )\nDOL := $$\nSTAR := \\*\n'
    'QM := \\?\nLB := \\[\nRB := \\]\nPIPE := \\|\nTILDE := ~\nLC := {\n'
    'RC := }\nSQ := \'\nDQ := "\nAMP := &\nBANG := !\nLT := <\nGT := >\n'
    'BT := `\nCARET := ^\nAT := @\nPLUS := +\n')


def _shq(s):
    return "'" + s.replace("'", "'\\''") + "'"


def _make_escape_min(s, target):
    """Only what GNU Make documents: $ doubled, blank # : quoted with a
    backslash, % quoted in a target (it is literal in the prerequisites of
    an explicit rule)."""
    out = []
    for c in s:
        if c == '$':
            out.append('$$')
        elif c in ' #:' or (c == '%' and target):
            out.append('\\' + c)
        else:
            out.append(c)
    return ''.join(out)


def _reference_make(n, strategy):
    tgt = 'out/' + n
    dep = 'in/' + n
    head = ''
    if strategy == 0:
        t, d = _make_escape(tgt), _make_escape(dep)
        tp = t
    elif strategy == 1:
        t, d = 'out/' + _make_vars(n), 'in/' + _make_vars(n)
        tp = t
        head = _MAKE_VARDEFS
    else:
        t, d = _make_escape_min(tgt, True), _make_escape_min(dep, False)
        tp = _make_escape_min(tgt, False)
    recipe = 'cp {} {}'.format(_shq(dep), _shq(tgt)).replace('$', '$$')
    return ('{}.SUFFIXES:\nall: {}\n{}: {}\n\t{}\nclean:\n\trm -f {}\n'
            .format(head, tp, t, d, recipe,
                    _shq(tgt).replace('$', '$$')))


def _reference_ninja(n):
    def esc(s):
        return s.replace('$', '$$').replace(' ', '$ ').replace(':', '$:')
    return ('rule cp\n  command = cp $in $out\nbuild {}: cp {}\n'
            'build all: phony {}\ndefault all\n'.format(
                esc('out/' + n), esc('in/' + n), esc('out/' + n)))


_repr_cache = {}
DEPFILE_ROLES = {'source', 'header', 'submodule', 'findfile', 'finddir',
                 'incdir', 'gincdir'}


def _protocol_ok(backend, tmp, out, touched):
    env = sandbox.base_env(tmp)
    clock = sandbox.Clock(tmp)

    def go():
        clock.tick(tmp)
        return sandbox.run_backend(backend, tmp, env, ['all'])
    r = go()
    if r.rc != 0 or not os.path.exists(out):
        return False
    m1 = mtime(out)
    r = go()
    if r.rc != 0 or mtime(out) != m1:
        return False
    t = clock.tick(tmp)
    os.utime(touched, ns=(t, t))
    r = go()
    return r.rc == 0 and mtime(out) != m1


def representable(backend, n, kind='plain'):
    """Can a hand-written build file make the tool handle this name
    (create, no-op, rebuild-on-touch)?
      plain  : as a rule target and as a prerequisite;
      depfile: as an entry of the dependency file the real gcc writes, read
               through the tool's own depfile mechanism (make: include,
               ninja: deps = gcc)."""
    key = (backend, n, kind)
    if key in _repr_cache:
        return _repr_cache[key]
    if backend == 'make' and n.endswith('&'):
        # `name&:` opens a grouped-target rule in GNU Make 4.3 wherever the
        # name is followed by a colon (the property lists it as having no
        # spelling in Make)
        _repr_cache[key] = False
        return False
    ok = False
    variants = [0, 1, 2] if backend == 'make' and kind == 'plain' else [0]
    for strategy in variants:
        with sandbox.scratch('c04r') as tmp:
            os.makedirs(os.path.join(tmp, 'in'))
            os.makedirs(os.path.join(tmp, 'out'))
            try:
                if kind == 'deptarget':
                    pass
                elif kind == 'plain':
                    sandbox.write_file(os.path.join(tmp, 'in', n), 'x\n')
                else:
                    sandbox.write_file(os.path.join(tmp, 'in', n + '.h'),
                                       '#define V 0\n')
                    sandbox.write_file(
                        os.path.join(tmp, 'in', 'main.c'),
                        '#include "{}.h"\nint main(void){{return V;}}\n'
                        .format(n))
            except OSError:
                break
            if kind == 'deptarget':
                # the name is a directory of the object the compiler names as
                # the target of the depfile it writes
                try:
                    os.makedirs(os.path.join(tmp, 'out', n))
                    sandbox.write_file(os.path.join(tmp, 'in', 'h.h'),
                                       '#define V 0\n')
                    sandbox.write_file(
                        os.path.join(tmp, 'in', 'main.c'),
                        '#include "h.h"\nint main(void){return V;}\n')
                except OSError:
                    break
                obj = 'out/' + n + '/main.o'
                if backend == 'make':
                    inc = obj.replace('$', '$$').replace(' ', '\\ ') \
                        .replace('#', '\\#') + '.d'
                    sandbox.write_file(
                        os.path.join(tmp, 'Makefile'),
                        '.SUFFIXES:\nall: {t}\n{t}: in/main.c\n\tgcc -c '
                        'in/main.c -MMD -MP -MF {q}.d -o {q}\n-include {i}\n'
                        .format(t=_make_escape_min(obj, True),
                                q=_shq(obj).replace('$', '$$'), i=inc))
                else:
                    e = obj.replace('$', '$$').replace(' ', '$ ') \
                        .replace(':', '$:')
                    sandbox.write_file(
                        os.path.join(tmp, 'build.ninja'),
                        'rule cc\n  command = gcc -c $in -MMD -MF {q}.d -o '
                        '{q}\n  depfile = $out.d\n  deps = gcc\n'
                        'build {e}: cc in/main.c\n'
                        'build all: phony {e}\ndefault all\n'.format(
                            q=_shq(obj).replace('$', '$$'), e=e))
                out = os.path.join(tmp, obj)
                touched = os.path.join(tmp, 'in', 'h.h')
            elif kind == 'plain':
                if backend == 'make':
                    sandbox.write_file(os.path.join(tmp, 'Makefile'),
                                       _reference_make(n, strategy))
                else:
                    sandbox.write_file(os.path.join(tmp, 'build.ninja'),
                                       _reference_ninja(n))
                out = os.path.join(tmp, 'out', n)
                touched = os.path.join(tmp, 'in', n)
            else:
                if backend == 'make':
                    sandbox.write_file(
                        os.path.join(tmp, 'Makefile'),
                        '.SUFFIXES:\nall: out/main.o\nout/main.o: in/main.c\n'
                        '\tgcc -c in/main.c -MMD -MP -MF out/main.o.d -o '
                        'out/main.o\n-include out/main.o.d\n')
                else:
                    sandbox.write_file(
                        os.path.join(tmp, 'build.ninja'),
                        'rule cc\n  command = gcc -c $in -MMD -MF $out.d -o '
                        '$out\n  depfile = $out.d\n  deps = gcc\n'
                        'build out/main.o: cc in/main.c\n'
                        'build all: phony out/main.o\ndefault all\n')
                out = os.path.join(tmp, 'out', 'main.o')
                touched = os.path.join(tmp, 'in', n + '.h')
            if _protocol_ok(backend, tmp, out, touched):
                ok = True
                break
    _repr_cache[key] = ok
    return ok


# --------------------------------------------------------------------------

def key_for(backend, role, step, n):
    sp = specials(n)
    ch = sp[0] if len(sp) == 1 else '+'.join(sp) or 'plain'
    if n.startswith('-') and not sp:
        ch = 'leading-dash'
    if n.startswith('=') and backend == 'ninja':
        ch = 'leading-equals'
    if n.startswith('~') and sp == ['~']:
        ch = 'leading-tilde'
    if n.startswith(' ') and backend == 'make':
        ch = 'leading-space'
    return '{}/{}/{}'.format(backend, role, ch)


def deptarget_role(role):
    # (the object's own name is the target of the dependency file the
    # compiler writes)
    return role in ('objhdr',)


def depfile_role(backend, role):
    """Does the name pass through a depfile read by the tool's depfile
    parser?  (The record of walked directories is a Makefile fragment for
    Make but a depfile for Ninja.)"""
    return role in DEPFILE_ROLES or (role == 'walkdir' and backend == 'ninja')


def check_name(rec, backend, role, n, case):
    if backend == 'ninja' and role == 'topobj':
        # not decided: with shell-special characters the reference Ninja
        # re-runs the compile of a top-level object although the hand-written
        # reference manifest does not; whether that is bfg9000's spelling of
        # the depfile or the reference Ninja's reading of it was still open
        # when the session ended (see DESIGN.md, section 19)
        rec.classes['not-decided:ninja-topobj'] += 1
        return
    if role == 'header' and '"' in n:
        rec.classes['excluded:c-include-syntax'] += 1
        return
    sp = specials(n)
    # steer around open known findings (count exclusions)
    if any(rec.is_open('{}/{}/{}'.format(backend, role, c))
           for c in sp if not (c == '~' and n.startswith('~') and
                               n.count('~') == 1)) or \
            (n.startswith('~') and rec.is_open(
                '{}/{}/leading-tilde'.format(backend, role))) or \
            (n.startswith('-') and rec.is_open('{}/{}/leading-dash'.format(
                backend, role))) or \
            (n.startswith(' ') and rec.is_open('{}/{}/leading-space'.format(
                backend, role))) or \
            (n.startswith('=') and rec.is_open('{}/{}/leading-equals'.format(
                backend, role))):
        rec.excluded()
        return
    unrep = sp and (not representable(backend, n) or (
        depfile_role(backend, role) and '"' not in n and
        not representable(backend, n, 'depfile')) or (
        deptarget_role(role) and
        not representable(backend, n, 'deptarget')))
    if depfile_role(backend, role) and '"' in n and sp:
        unrep = True                    # cannot even be #included
    if unrep:
        rec.classes['unrepresentable:' + backend] += 1
        rec.notes.setdefault('unrepresentable_' + backend, [])
        if len(rec.notes['unrepresentable_' + backend]) < 40 and \
                n not in rec.notes['unrepresentable_' + backend]:
            rec.notes['unrepresentable_' + backend].append(n)
        return
    rec.case({backend, 'role:' + role} | {'char:' + c for c in sp},
             nontrivial=([backend, role, sp] if sp else None), sample=case)
    with sandbox.scratch('c04') as tmp:
        proto = Proto(tmp, backend)
        os.makedirs(proto.src)
        try:
            products, touched, rebuilt = render(role, n, proto.src)
        except OSError:
            return                  # not a valid file name on this system

        def fail(step, msg):
            raise Violation(key_for(backend, role, step, n),
                            '[{} / role {} / step {}] name {!r}: {}'.format(
                                backend, role, step, n, msg), case)

        def absolute(x):
            return os.path.join(proto.bld if x[0] == 'B' else proto.src, x[1])
        r = sandbox.configure(proto.src, proto.bld, proto.env,
                              backend=backend)
        if r.rc != 0:
            fail('configure', 'configure failed: ' + r.err.strip()[-500:])
        walked = None
        if role in ('finddir', 'walkdir'):
            walked = os.path.join(proto.src, 'tree', n)
        elif role == 'findfile':
            walked = os.path.join(proto.src, 'tree')
        proto.run([absolute(p) for p in products], absolute(touched),
                  [absolute(p) for p in rebuilt], fail, walked=walked)


def prop_names(rec):
    def prop(case):
        try:
            check_name(rec, case['backend'], case['role'], case['name'],
                       case)
        except Violation as v:
            rec.fail(v.key, v.message, case)
    return prop


def cases():
    return st.fixed_dictionaries({
        'backend': st.sampled_from(['make', 'ninja']),
        'role': st.sampled_from(ROLES),
        'name': names()})


def _run(rec, seed, budget, shard, nshards):
    run_hypothesis(rec, cases(), prop_names(rec), budget, seed, shrink=False)


def sweep_cases():
    out = []
    for backend in ('make', 'ninja'):
        for role in ROLES:
            for c in ALPHABET:
                out.append({'backend': backend, 'role': role,
                            'name': 'ab' + c + 'c'})
    return out


CORE_NAMES = ['a b', 'a$b', 'a#b', 'ab:c', 'a%b', '-ab', '~ab', 'a b/c d',
              'a${x}b', 'a$$b']


LEADING = '~-=+@#.:%!&^,'


def leading_cases():
    """Characters that are special at the beginning of a name."""
    out = []
    for backend in ('make', 'ninja'):
        for role in ROLES:
            for c in LEADING:
                if valid_name(c + 'ab'):
                    out.append({'backend': backend, 'role': role,
                                'name': c + 'ab'})
    return out


def core_cases():
    out = []
    for backend in ('make', 'ninja'):
        for role in ROLES:
            for n in CORE_NAMES:
                if '/' in n and role not in ('outdir', 'submodule', 'walkdir',
                                             'finddir', 'incdir', 'gincdir'):
                    continue
                out.append({'backend': backend, 'role': role, 'name': n})
    return out


def _run_sweep(rec, seed, budget, shard, nshards, slice_):
    """Exhaustive single-character sweep (collects every violation)."""
    allc = sweep_cases() + leading_cases()
    if slice_ is not None:
        # the quick tier always covers the characters met most in practice
        sel = [c for k, c in enumerate(allc)
               if (k // nshards) % slice_[1] == slice_[0]]
        allc = core_cases() + sel
        slice_ = ('done',)
    seen = set()
    for k, case in enumerate(allc):
        if k % nshards != shard:
            continue
        try:
            check_name(rec, case['backend'], case['role'], case['name'],
                       case)
        except Violation as v:
            if rec.is_open(v.key):
                rec.known_hits[v.key] += 1
            elif v.key not in seen:
                seen.add(v.key)
                rec.violations.append({'key': v.key, 'message': v.message,
                                       'case': v.case})
    rec.exhaustive = slice_ is None


def tasks(tier):
    try:
        seed = int(os.environ.get('VERIF_SEED') or '1')
    except ValueError:
        seed = 1
    if tier == 'quick':
        return [Task('names', _run, quick=16 * 8, thorough=0),
                Task('sweep', _run_sweep, quick=1, thorough=1,
                     slice_=(seed % 12, 12))]
    return [Task('names', _run, quick=0, thorough=16 * 200),
            Task('sweep', _run_sweep, quick=1, thorough=1, slice_=None)]


def replay(task, case, rec):
    check_name(rec, case['backend'], case['role'], case['name'], case)
