"""C05 — Distinct inputs never collide on one output path; outputs stay in
builddir.

(i)  in-process: within_directory on generated path sets (injectivity,
     containment).
(ii) end-to-end: configure generated projects (make, and ninja when the
     reference ninja is present), read outputs from compile_commands.json and
     the build files, then build / clean / regenerate and compare a snapshot
     of the source directory.
"""
import json
import os
import posixpath
import re

from hypothesis import strategies as st

from ..runner import Task, Violation, HarnessError, run_hypothesis
from .. import sandbox

ID = 'C05'
LEVEL = 'exploration'
TECHNIQUE = ('property-based testing (Hypothesis): injectivity / containment '
             'invariants over generated source-path sets, in-process and '
             'through configure + build + clean + regenerate')
RULE = ('Sets of 2-7 source paths whose components are weighted towards one- '
        'and two-character names, dotted names, equal basenames in different '
        'directories, equal stems with different extensions and ../ '
        'references out of a submodule and, one case in six, above the top '
        'of the source tree (the component PAR is excluded, as the '
        'property states) x target kind (executable, static/shared library, '
        'object_files, copy_files) x intermediate_dirs on/off x explicit '
        'intermediate_dir/directory x submodule depth 0-2.  Non-trivial: >= 2 '
        'sources sharing a basename or containing a <= 2-character component '
        'or a "..", distinct = multiset of component-length signatures + '
        'kind + options.')
LEVEL_TEXT = ('Generated-input search with invariants as oracle: pairwise '
              'distinct outputs for distinct (directory, stem), all outputs '
              'inside the build directory, source directory byte-for-byte '
              'untouched by configure/build/clean/regenerate, and a '
              'configuration error exactly when two steps would write one '
              'path.')
LEVEL_NOTE = ('Trusted: compile_commands.json "output" entries and the '
              'duplicate-target diagnostics of GNU Make as the observation of '
              'output paths; real gcc.')
ASSUMPTIONS = [
    'the literal component name PAR is reserved (excluded by the property)',
]

COMPS = ['a', 'b', 'ab', 'cd', 'xy', 'x', 'src', 'lib', 'a.b', '..x', 'x..',
         '...', 'ab.cd', 'long_name', 'é', 'a b', '1', '12', 'v1..', 'v1PAR',
         'PARa', 'x.', 'a_b', 'x#y', 'x_y', 'p%q', 'p_q']
STEMS = ['x', 'y', 'main', 'a', 'ab', 'util.v1', 'util.v2', 'x.tab', '..',
         'a b', 'y..', 'yPAR', 'l' * 201 + '_v1', 'l' * 201 + '_v2', 'a_b',
         'cpu%', 'cpu_']
EXTS = ['.c', '.c', '.c', '.cpp', '.cc']


@st.composite
def relsources(draw, allow_up=False):
    ncomp = draw(st.integers(0, 3))
    comps = [draw(st.sampled_from(COMPS)) for _ in range(ncomp)]
    stem = draw(st.sampled_from(STEMS))
    if stem == '..':
        stem = 'dd'
    up = 0
    if allow_up and draw(st.integers(0, 3)) == 0:
        up = draw(st.integers(1, 2))
    return {'up': up, 'dir': comps, 'stem': stem,
            'ext': draw(st.sampled_from(EXTS))}


def src_string(s):
    return '/'.join(['..'] * s['up'] + s['dir'] + [s['stem'] + s['ext']])


# --------------------------------------------------------------------------
# (i) within_directory

@st.composite
def within_cases(draw):
    n = draw(st.integers(2, 6))
    subdir = draw(st.sampled_from(['', '', 'sub', 'ab', 'sub/cd']))
    srcs = [draw(relsources(allow_up=bool(subdir))) for _ in range(n)]
    # limit "up" to the depth of the submodule so the path stays in the tree
    depth = len(subdir.split('/')) if subdir else 0
    for s in srcs:
        s['up'] = min(s['up'], depth)
    return {'subdir': subdir, 'sources': srcs,
            'intdir': draw(st.sampled_from(['prog.int', 'libfoo.int', 'o',
                                            'ab', 'x/y']))}


def norm_src(subdir, s):
    return posixpath.normpath(posixpath.join(subdir or '.', src_string(s)))


def sig(case):
    lens = []
    for s in case['sources']:
        lens.append('U' * s['up'] + ''.join(str(min(len(c), 3)) for c in s['dir']))
    return sorted(lens)


def interesting_sources(srcs):
    base = [s['stem'] + s['ext'] for s in srcs]
    return (len(set(base)) < len(base) or
            any(len(c) <= 2 for s in srcs for c in s['dir']) or
            any(s['up'] for s in srcs))


def prop_within(rec):
    from bfg9000.builtins.path import within_directory
    from bfg9000.path import Path

    def prop(case):
        sub = case['subdir']
        rec.case({'submodule' if sub else 'top',
                  'has-up' if any(s['up'] for s in case['sources'])
                  else 'no-up'},
                 nontrivial=([sig(case), sub, case['intdir']]
                             if interesting_sources(case['sources'])
                             else None), sample=case)
        directory = Path(posixpath.join(sub, case['intdir']) + '/')
        seen = {}
        for s in case['sources']:
            full = norm_src(sub, s)
            name = Path(posixpath.splitext(full)[0])
            out = within_directory(name, directory)
            osfx = out.suffix
            if '..' in osfx.split('/') or out.root.name != 'builddir':
                raise Violation('within/containment', '{!r} placed at {!r}, '
                                'outside the build directory'.format(
                                    full, osfx), case)
            if not osfx.startswith(directory.suffix + '/'):
                # (allowed: only when the stem path equals the parent of the
                # intermediate directory; still inside the build directory)
                rec.classes['outside-intermediate-dir'] += 1
            key = posixpath.splitext(full)[0]
            for other_key, other_out in seen.items():
                if other_key != key and other_out == osfx:
                    raise Violation(
                        'within/collision',
                        'sources {!r} and {!r} both map to {!r}'.format(
                            other_key, key, osfx), case)
            seen[key] = osfx
    return prop


# --------------------------------------------------------------------------
# (ii) end-to-end

@st.composite
def e2e_cases(draw):
    depth = draw(st.sampled_from([0, 0, 1, 2]))
    subdir = '/'.join(draw(st.sampled_from(['sub', 'ab', 'm'])) + str(i)
                      for i in range(depth))
    n = draw(st.integers(2, 6))
    srcs = []
    # one case in six refers to a file above the top of the source tree
    escape = draw(st.integers(0, 5)) == 0
    for k in range(n):
        s = draw(relsources(allow_up=depth > 0))
        s['up'] = min(s['up'], depth)
        if escape and k == 0:
            s['up'] = depth + 1
        if s['ext'] not in ('.c', '.cpp', '.cc'):
            s['ext'] = '.cpp'
        if draw(st.integers(0, 7)) == 0:
            s['ext'] = '.l'     # a second language: lex scanners
        srcs.append(s)
    if draw(st.integers(0, 4)) == 0:
        # force a same-stem different-extension pair
        t = dict(srcs[0])
        # (another language, or the same language under another extension)
        t['ext'] = draw(st.sampled_from(
            [e for e in ('.c', '.cpp', '.cc') if e != srcs[0]['ext']]))
        srcs.append(t)
    kind = draw(st.sampled_from(['executable', 'static_library',
                                 'shared_library', 'object_files',
                                 'two_targets']))
    return {
        'subdir': subdir, 'sources': srcs, 'kind': kind,
        'intermediate_dirs': draw(st.sampled_from([True, True, False])),
        'intermediate_dir': draw(st.sampled_from([None, None, 'objs',
                                                  'ab/cd'])),
        'name': draw(st.sampled_from(['prog', 'out/prog', 'ab', 'p q'])),
        'copies': draw(st.lists(st.sampled_from(
            ['data.txt', 'ab/data.txt', 'cd/data.txt', 'x/y/d.in']),
            max_size=3, unique=True)),
        'copy_dir': draw(st.sampled_from([None, 'share', 'ab'])),
        'build': draw(st.integers(0, 2)) == 0,
        'backend': draw(st.sampled_from(['make', 'ninja'])),
        'pch': draw(st.sampled_from([None, None, None, 'string'])),
    }


def render_project(root, case):
    sub = case['subdir']
    files = {}
    uniq = []
    for s in case['sources']:
        p = norm_src(sub, s)
        if p not in uniq:
            uniq.append(p)
    for i, p in enumerate(uniq):
        body = 'int f{}(void) {{ return {}; }}\n'.format(i, i)
        if p.endswith(('.cpp', '.cc')):
            body = 'extern "C" ' + body
        if p.endswith('.l'):
            body = '%%\n%%\n'
        files[p] = body
    mainsrc = posixpath.join(sub, 'vf_main_entry.c')
    files[mainsrc] = 'int main(void) { return 0; }\n'
    for c in case['copies']:
        files[posixpath.join(sub, c)] = 'data\n'
    rel = [src_string(s) for s in case['sources']]
    # de-duplicate identical spellings (same file listed twice is not a
    # collision of two *different* inputs)
    seen = []
    for r in rel:
        if norm_src(sub, {'up': 0, 'dir': [], 'stem': r, 'ext': ''}) not in \
                [norm_src(sub, {'up': 0, 'dir': [], 'stem': q, 'ext': ''})
                 for q in seen]:
            seen.append(r)
    rel = seen
    kw = ''
    if case['intermediate_dir'] is not None and case['kind'] != \
            'object_files':
        kw += ', intermediate_dir={!r}'.format(case['intermediate_dir'])
    if case.get('pch') and case['kind'] in ('executable', 'static_library',
                                            'shared_library'):
        files[posixpath.join(sub, 'vf_pch.h')] = '/* pch */\n'
        kw += ", pch='vf_pch.h'"
    lines = []
    k = case['kind']
    name = case['name']
    if k == 'executable':
        lines.append('executable({!r}, {!r}{})'.format(
            name, rel + ['vf_main_entry.c'], kw))
    elif k in ('static_library', 'shared_library'):
        lines.append('{}({!r}, {!r}{})'.format(k, name, rel, kw))
    elif k == 'object_files':
        d = case['intermediate_dir']
        lines.append('object_files({!r}{})'.format(
            rel, ', directory={!r}'.format(d) if d else ''))
    else:
        half = max(1, len(rel) // 2)
        lines.append('executable({!r}, {!r}{})'.format(
            name, rel[:half] + ['vf_main_entry.c'], kw))
        lines.append('static_library({!r}, {!r}{})'.format(
            name + '2', rel[half:] or rel[:1], kw))
    if case['copies']:
        lines.append('copy_files({!r}{})'.format(
            case['copies'], ', directory={!r}'.format(case['copy_dir'])
            if case['copy_dir'] else ''))
    script = '\n'.join(lines) + '\n'
    proj = "project('c05', intermediate_dirs={})\n".format(
        case['intermediate_dirs'])
    if sub:
        parts = sub.split('/')
        files['build.bfg'] = proj + 'submodule({!r})\n'.format(parts[0])
        for i in range(1, len(parts)):
            files[posixpath.join('/'.join(parts[:i]), 'build.bfg')] = \
                'submodule({!r})\n'.format(parts[i])
        files[posixpath.join(sub, 'build.bfg')] = script
    else:
        files['build.bfg'] = proj + script
    for p, body in files.items():
        sandbox.write_file(os.path.join(root, p), body)
    return uniq, rel


def expected_collision(case, uniq, rel):
    """True when two different inputs of one target share directory and
    stem (so they can only get one object name), or two targets share an
    object directory."""
    sub = case['subdir']
    groups = [rel]
    k = case['kind']
    if k == 'two_targets':
        half = max(1, len(rel) // 2)
        a, b = rel[:half], (rel[half:] or rel[:1])
        shared_dir = (case['intermediate_dir'] is not None or
                      not case['intermediate_dirs'])
        groups = [a + b] if shared_dir else [a, b]
        if shared_dir and set(a) & set(b):
            return True
    for g in groups:
        # (a lex source becomes <stem>.yy.c, so it only clashes with other
        # lex sources or with a source literally called <stem>.yy.*)
        stems = [posixpath.splitext(posixpath.normpath(
            posixpath.join(sub or '.', r)))[0] +
            ('.yy' if r.endswith('.l') else '') for r in g]
        if len(set(stems)) < len(stems):
            return True
    # copies into one directory with equal basenames
    if case['copy_dir']:
        pass
    return False


def prop_e2e(rec):
    def prop(case):
        backend = case.get('backend', 'make')
        depth_ = len(case['subdir'].split('/')) if case['subdir'] else 0
        labs = {case['kind'], backend, 'depth={}'.format(depth_)}
        if any(s['up'] > depth_ for s in case['sources']):
            labs.add('source-above-srcdir')
        if not case['intermediate_dirs']:
            labs.add('no-intermediate-dirs')
        rec.case(labs, nontrivial=(
            [sig(case), case['kind'], case['intermediate_dirs'],
             case['intermediate_dir'], case['subdir'], backend]
            if interesting_sources(case['sources']) else None), sample=case)
        with sandbox.scratch('c05') as tmp:
            src = os.path.join(tmp, 'src')
            bld = os.path.join(tmp, 'bld')
            uniq, rel = render_project(src, case)
            clock = sandbox.Clock(tmp)
            env = sandbox.base_env(os.path.join(tmp, 'home'), extra={
                'LEX': os.path.join(sandbox.STUBBIN, 'lex')})
            before = sandbox.snapshot(src, content=True)
            r = sandbox.configure(src, bld, env, backend=backend)
            collide = expected_collision(case, uniq, rel)
            if sandbox.snapshot(src, content=True) != before:
                raise Violation('e2e/srcdir-touched/configure', 'configure '
                                'changed the source directory', case)
            if r.rc != 0:
                if collide:
                    if 'already exists' not in r.err:
                        rec.classes['collision-rejected-other-msg'] += 1
                    rec.classes['collision-rejected'] += 1
                    return
                if 'already exists' in r.err:
                    if case.get('pch') and 'vf_pch.h' in r.err:
                        rec.fail('e2e/false-collision/pch-string', 'pch= '
                                 'given as a string with several sources is '
                                 'rejected: ' + r.err.strip()[-300:], case)
                        rec.excluded()
                        return
                    raise Violation('e2e/false-collision', 'configure '
                                    'rejected distinct inputs: {}'.format(
                                        r.err.strip()[-600:]), case)
                # other configure errors (e.g. a name the tool chain cannot
                # take) are not this property's subject
                rec.classes['configure-failed-other'] += 1
                return
            # configure succeeded
            with open(os.path.join(bld, 'compile_commands.json')) as f:
                cdb = json.load(f)
            outs = {}
            for e in cdb:
                if 'output' not in e:
                    continue
                o = e['output']
                full = os.path.normpath(os.path.join(e['directory'], o))
                if not (full + os.sep).startswith(
                        os.path.realpath(bld) + os.sep) and not \
                        (full + os.sep).startswith(bld + os.sep):
                    raise Violation('e2e/output-outside-builddir', 'output '
                                    '{!r} of {!r} is outside the build '
                                    'directory'.format(o, e['file']), case)
                if os.path.isabs(o) or o.split('/')[0] == '..':
                    raise Violation('e2e/output-not-builddir-rooted',
                                    'output {!r}'.format(o), case)
                if full in outs and outs[full] != e['file']:
                    raise Violation('e2e/output-collision', 'inputs {!r} and '
                                    '{!r} both produce {!r}'.format(
                                        outs[full], e['file'], o), case)
                outs[full] = e['file']
            if collide:
                raise Violation('e2e/collision-accepted', 'two inputs share '
                                'directory and stem but configure succeeded; '
                                'outputs {!r}'.format(sorted(
                                    os.path.relpath(o, bld) for o in outs)),
                                case)
            if backend == 'make':
                q = sandbox.run_make(bld, env, ['-n', '-k', 'all'])
                if re.search(r'overriding recipe|ignoring old recipe',
                             q.err):
                    raise Violation('e2e/duplicate-make-target', q.err[-600:],
                                    case)
            else:
                q = sandbox.run_ninja(bld, env, ['-n', 'all'])
                if q.rc == 2:
                    raise HarnessError('reference ninja: ' + q.err[-600:])
                if 'multiple rules generate' in q.err + q.out:
                    raise Violation('e2e/duplicate-ninja-output',
                                    (q.err + q.out)[-600:], case)
            if not case['build']:
                return
            clock.tick(tmp)
            b = sandbox.run_backend(backend, bld, env, ['all'])
            if sandbox.snapshot(src, content=True) != before:
                raise Violation('e2e/srcdir-touched/build', 'build changed '
                                'the source directory', case)
            if b.rc != 0:
                rec.classes['build-failed'] += 1
                return
            for o in outs:
                if o.endswith('.o') and case['kind'] != 'object_files' and \
                        not os.path.exists(o):
                    raise Violation('e2e/output-missing', 'object {!r} not '
                                    'created by the build'.format(
                                        os.path.relpath(o, bld)), case)
            clock.tick(tmp)
            g = sandbox.run_bfg(['regenerate', bld], tmp, env)
            if sandbox.snapshot(src, content=True) != before:
                raise Violation('e2e/srcdir-touched/regenerate', 'regenerate '
                                'changed the source directory', case)
            c = sandbox.run_backend(backend, bld, env, ['clean'])
            if sandbox.snapshot(src, content=True) != before:
                raise Violation('e2e/srcdir-touched/clean', 'clean changed '
                                'the source directory', case)
            rec.classes['built+regenerated+cleaned'] += 1
    return prop


# --------------------------------------------------------------------------
# (i-b) object naming through the real builtins, in-process

@st.composite
def clustered_sources(draw):
    """Sources drawn in clusters: several stems in the same directory (stems
    share prefixes up to a dot), and equal stems in sibling directories."""
    srcs = []
    for _ in range(draw(st.integers(1, 3))):
        d = [draw(st.sampled_from(COMPS))
             for _ in range(draw(st.integers(0, 2)))]
        stems = draw(st.lists(st.sampled_from(
            ['x', 'util.v1', 'util.v2', 'util', 'x.tab', 'x.lex', 'a.b.c',
             'a.b', 'a', 'main', '.hidden', 'ab', 'frame.enc', 'frame']),
            min_size=1, max_size=4, unique=True))
        up = draw(st.sampled_from([0, 0, 0, 1]))
        for stem in stems:
            srcs.append({'up': up, 'dir': d, 'stem': stem,
                         'ext': draw(st.sampled_from(EXTS))})
    return srcs


@st.composite
def objname_cases(draw):
    subdir = draw(st.sampled_from(['', '', 'sub', 'ab/cd']))
    srcs = draw(clustered_sources())
    depth = len(subdir.split('/')) if subdir else 0
    for s in srcs:
        s['up'] = min(s['up'], depth)
    return {'subdir': subdir, 'sources': srcs,
            'kind': draw(st.sampled_from(['executable', 'static_library',
                                          'shared_library', 'object_files',
                                          'library'])),
            'intermediate_dirs': draw(st.sampled_from([True, True, False])),
            'intermediate_dir': draw(st.sampled_from([None, None, 'objs',
                                                      'ab/cd'])),
            'name': draw(st.sampled_from(['prog', 'out/prog', 'ab']))}


def prop_objname(rec):
    from .c11 import make_context

    def prop(case):
        from bfg9000.builtins import builtin
        from bfg9000.path import Path, Root
        sub = case['subdir']
        stems = [s['stem'] for s in case['sources']]
        rec.case({case['kind'], 'submodule' if sub else 'top'},
                 nontrivial=([sig(case), sorted(stems), case['kind'],
                              case['intermediate_dirs'],
                              case['intermediate_dir'], sub]
                             if interesting_sources(case['sources']) or
                             any('.' in s for s in stems) else None),
                 sample=case)
        env, build, ctx = make_context('/nonexistent/vf/src',
                                       '/nonexistent/vf/bld', reuse_env=True)
        ctx['project']('c05', intermediate_dirs=case['intermediate_dirs'])
        if sub:
            ctx.path_stack.append(builtin.BuildContext.PathEntry(
                Path(posixpath.join(sub, 'build.bfg'), Root.srcdir)))
        rel = []
        for s in case['sources']:
            r = src_string(s)
            if r not in rel:
                rel.append(r)
        kw = {}
        if case['kind'] == 'object_files':
            if case['intermediate_dir']:
                kw['directory'] = case['intermediate_dir']
            ctx['object_files'](rel, **kw)
        else:
            if case['intermediate_dir'] is not None:
                kw['intermediate_dir'] = case['intermediate_dir']
            ctx[case['kind']](case['name'], rel, **kw)
        seen = {}
        for e in build.edges():
            f = getattr(e, 'file', None)
            if f is None or type(e).__name__ != 'CompileSource':
                continue
            for o in e.output:
                if o.path.root.name != 'builddir' or \
                        '..' in o.path.suffix.split('/'):
                    raise Violation('objname/outside-builddir', '{!r} -> {!r}'
                                    .format(f.path, o.path), case)
                key = posixpath.splitext(f.path.suffix)[0]
                for k2, o2 in seen.items():
                    if k2 != key and o2 == o.path.suffix:
                        raise Violation(
                            'objname/collision', 'sources {!r} and {!r} of '
                            'one target both compile to {!r}'.format(
                                k2, key, o2), case)
                seen[key] = o.path.suffix
    return prop


def _run_objname(rec, seed, budget, shard, nshards):
    run_hypothesis(rec, objname_cases(), prop_objname(rec), budget, seed)


# --------------------------------------------------------------------------
# (iii) scripts that name an output twice must be rejected

DUP_NAMES = ['config.h', 'config.c', 'config.txt', 'out.txt', 'gen', 'prog',
             'x/y.txt', 'data.txt',
             # names the backends have to escape when they write them
             'unit tests', 'notes#1.txt', 'p%q', 'a$b', 'x y/z w.txt']


@st.composite
def dupe_cases(draw):
    steps = []
    for _ in range(draw(st.integers(2, 5))):
        kind = draw(st.sampled_from(['build_step', 'build_step', 'copy_file',
                                     'executable', 'alias', 'command']))
        if kind == 'build_step':
            outs = draw(st.lists(st.sampled_from(DUP_NAMES), min_size=1,
                                 max_size=3, unique=True))
        else:
            outs = [draw(st.sampled_from(DUP_NAMES))]
        steps.append({'kind': kind, 'outs': outs})
    return {'steps': steps,
            'backend': draw(st.sampled_from(['make', 'ninja']))}


def prop_dupes(rec):
    def prop(case):
        backend = case.get('backend', 'make')
        allouts = [o for s in case['steps'] for o in s['outs']]
        dup = len(set(allouts)) < len(allouts)
        multi = any(len(s['outs']) > 1 for s in case['steps'])
        rec.case({'duplicate' if dup else 'unique', backend,
                  'multi-output' if multi else 'single-output'},
                 nontrivial=([backend] + [[s['kind'], s['outs']]
                                          for s in case['steps']]
                             if dup and multi else None), sample=case)
        with sandbox.scratch('c05d') as tmp:
            src = os.path.join(tmp, 'src')
            bld = os.path.join(tmp, 'bld')
            lines = []
            for s in case['steps']:
                if s['kind'] == 'build_step':
                    lines.append('build_step({!r}, cmd=["touch"] + {!r})'
                                 .format(s['outs'] if len(s['outs']) > 1
                                         else s['outs'][0], s['outs']))
                elif s['kind'] == 'copy_file':
                    lines.append('copy_file({!r}, "input.dat")'.format(
                        s['outs'][0]))
                elif s['kind'] == 'alias':
                    # (a named target without a file: the name still has to
                    # be unique in the build file)
                    lines.append('alias({!r}, [])'.format(s['outs'][0]))
                elif s['kind'] == 'command':
                    lines.append('command({!r}, cmd=["true"])'.format(
                        s['outs'][0]))
                else:
                    lines.append('executable({!r}, ["main.c"], '
                                 'intermediate_dir={!r})'.format(
                                     s['outs'][0],
                                     'i{}'.format(len(lines))))
            sandbox.write_file(os.path.join(src, 'build.bfg'),
                               '\n'.join(lines) + '\n')
            sandbox.write_file(os.path.join(src, 'main.c'),
                               'int main(void){return 0;}\n')
            sandbox.write_file(os.path.join(src, 'input.dat'), 'x\n')
            env = sandbox.base_env(os.path.join(tmp, 'home'))
            r = sandbox.configure(src, bld, env, backend=backend)
            if dup and r.rc == 0:
                detail = ''
                if backend == 'make':
                    q = sandbox.run_make(bld, env, ['-n', '-k', 'all'])
                    detail = q.err.strip()[-300:]
                raise Violation('dupes/accepted', 'steps {!r} name an output '
                                'twice but configure succeeded. {}'.format(
                                    [[s['kind'], s['outs']]
                                     for s in case['steps']], detail), case)
            if not dup and r.rc != 0:
                raise Violation('dupes/false-rejection', 'all outputs are '
                                'distinct but configure failed: {}'.format(
                                    r.err.strip()[-400:]), case)
    return prop


def _run_dupes(rec, seed, budget, shard, nshards):
    run_hypothesis(rec, dupe_cases(), prop_dupes(rec), budget, seed,
                   shrink=(os.environ.get('VERIF_TIER') == 'thorough'))


def _run_within(rec, seed, budget, shard, nshards):
    run_hypothesis(rec, within_cases(), prop_within(rec), budget, seed)


def _run_e2e(rec, seed, budget, shard, nshards):
    run_hypothesis(rec, e2e_cases(), prop_e2e(rec), budget, seed,
                   shrink=(os.environ.get('VERIF_TIER') == 'thorough'))


def tasks(tier):
    return [
        Task('within', _run_within, quick=16 * 1000, thorough=16 * 150000),
        Task('objname', _run_objname, quick=16 * 400, thorough=16 * 30000),
        Task('e2e', _run_e2e, quick=16 * 12, thorough=16 * 400),
        Task('dupes', _run_dupes, quick=16 * 10, thorough=16 * 300),
    ]


def replay(task, case, rec):
    if task == 'within':
        prop_within(rec)(case)
    elif task == 'e2e':
        prop_e2e(rec)(case)
    elif task == 'objname':
        prop_objname(rec)(case)
    elif task == 'dupes':
        prop_dupes(rec)(case)
    else:
        raise HarnessError('unknown task ' + task)
