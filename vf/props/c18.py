"""C18 — The source distribution contains everything the build reads from
srcdir.

Generated scripts combine the builtins that create file objects; `make dist`
(real doppel) is run and the archive members are compared with (i) the model
of the script, (ii) every source-directory path GNU Make's database lists as a
prerequisite, (iii) the scripts that configuration executes.  The archive is
then unpacked and configured."""
import os
import posixpath
import tarfile

from hypothesis import strategies as st

from ..runner import Task, Violation, HarnessError, run_hypothesis
from .. import sandbox
from .c06 import make_relation

ID = 'C18'
LEVEL = 'exploration'
TECHNIQUE = ('property-based testing (Hypothesis): model + build-file-derived '
             'oracle on the member list of the archive produced by the real '
             'dist target, and round trip (unpack, configure, compare)')
RULE = ('Scripts composed of 19 optional features: sources, header_directory '
        'with include pattern (also as a system directory), header_file, '
        'generic_file, man_page, '
        'extra_dist(files, dirs), find_files with extra / filter_by_platform '
        '(platform suffixes and per-platform directories) / '
        'cache=False, dist=False markers (source_file, generic_file, '
        'find_files), submodules (build.bfg and options.bfg), generated '
        'sources, command(files=), copy_file, extra_deps.  Non-trivial: >= 4 '
        'features incl. a find_files variant or a dist=False marker; distinct '
        '= feature set.  The archive is made through dist, dist-gzip, '
        'dist-bzip2 or dist-zip.')
LEVEL_TEXT = ('Generated-input search: required members, forbidden members '
              '(dist=False, build directory) and the configure round trip of '
              'the unpacked archive are checked for every generated feature '
              'combination.')
LEVEL_NOTE = ('Trusted: doppel (the real archiver), tarfile, GNU Make\'s '
              'database dump for the prerequisites below $(srcdir).')
ASSUMPTIONS = ['files that no script mentions may or may not be in the '
               'archive (the property only bounds from below and forbids '
               'dist=False / build-directory files)']

FEATURES = ['hdrdir', 'syshdrdir', 'hdrfile', 'generic', 'man', 'extra_dist', 'find',
            'find_platform', 'find_platform_dirs', 'find_nocache', 'nodist_src',
            'nodist_generic',
            'nodist_find', 'submodule', 'opt_submodule', 'generated',
            'cmdfiles', 'copy', 'extra_deps']


@st.composite
def cases(draw):
    feats = draw(st.lists(st.sampled_from(FEATURES), min_size=1,
                          max_size=len(FEATURES), unique=True))
    return {'features': sorted(feats),
            'format': draw(st.sampled_from(['dist', 'dist', 'dist-gzip',
                                            'dist-bzip2', 'dist-zip'])),
            'nsrc': draw(st.integers(1, 3)),
            'regen_first': draw(st.booleans()),
            # what appears before the dist target runs: a new match or a file
            # that only the extra= pattern selects
            'late': draw(st.sampled_from(['match', 'extra']))}


def render(case, src):
    """Returns (required, forbidden): source-relative paths."""
    F = set(case['features'])
    req, forb = set(), set()
    files = {}
    L = ["project('c18', version='1.0')"]
    srcs = []
    for i in range(case['nsrc']):
        p = 'src/m{}.c'.format(i)
        files[p] = 'int m{}(void){{return 0;}}\n'.format(i)
        srcs.append(p)
        req.add(p)
    files['src/main.c'] = 'int main(void){return 0;}\n'
    srcs.append('src/main.c')
    req.add('src/main.c')
    kw = []
    if 'hdrdir' in F:
        files['include/api.h'] = '/* api */\n'
        files['include/sub/deep.h'] = '/* deep */\n'
        files['include/notes.txt'] = 'not a header\n'
        L.append("inc = header_directory('include', include='**/*.h')")
        kw.append('includes=[inc]')
        req |= {'include/api.h', 'include/sub/deep.h'}
    if 'syshdrdir' in F:
        # vendored headers used as a system include directory
        files['vendor/tiny.h'] = '/* tiny */\n'
        files['vendor/detail/impl.h'] = '/* impl */\n'
        L.append("vinc = header_directory('vendor', include='**/*.h', "
                 "system=True)")
        kw.append('includes=[vinc]' if 'hdrdir' not in F else '')
        if 'hdrdir' in F:
            kw[kw.index('includes=[inc]')] = 'includes=[inc, vinc]'
            kw.remove('')
        req |= {'vendor/tiny.h', 'vendor/detail/impl.h'}
    if 'hdrfile' in F:
        files['cfg.h'] = '/* cfg */\n'
        L.append("cfg = header_file('cfg.h')")
        kw.append('extra_deps=[cfg]')
        req.add('cfg.h')
    if 'nodist_src' in F:
        files['src/secret.c'] = 'int secret(void){return 0;}\n'
        L.append("sec = source_file('src/secret.c', dist=False)")
        forb.add('src/secret.c')
    if 'generated' in F:
        files['gen.in'] = 'x\n'
        L.append("g = build_step('gen_out.c', cmd=['cp', build_step.input, "
                 "build_step.output], files=['gen.in'])")
        req.add('gen.in')
    src_expr = repr(srcs)
    if 'nodist_src' in F:
        src_expr += ' + [sec]'
    if 'generated' in F:
        src_expr += ' + [g]'
    if 'find' in F:
        files['tree/a/f1.c'] = 'int f1(void){return 0;}\n'
        files['tree/b/f2.c'] = 'int f2(void){return 0;}\n'
        files['tree/a/README.md'] = 'doc\n'
        files['tree/top.md'] = 'doc\n'
        L.append("found = find_files('tree/**/*.c', extra='*.md')")
        src_expr += ' + found'
        req |= {'tree/a/f1.c', 'tree/b/f2.c', 'tree/a/README.md',
                'tree/top.md'}
    if 'find_platform' in F:
        files['plat/io_linux.c'] = 'int iol(void){return 0;}\n'
        files['plat/io_windows.c'] = 'int iow(void){return 0;}\n'
        files['plat/common.c'] = 'int ioc(void){return 0;}\n'
        L.append("pfound = find_files('plat/*.c', filter=filter_by_platform)")
        src_expr += ' + pfound'
        req |= {'plat/io_linux.c', 'plat/io_windows.c', 'plat/common.c'}
    if 'find_platform_dirs' in F:
        # sources of other platforms kept in per-platform directories: not
        # built here, but part of the source distribution
        files['pdirs/common.c'] = 'int pc(void){return 0;}\n'
        files['pdirs/linux/l.c'] = 'int pl(void){return 0;}\n'
        files['pdirs/windows/w.c'] = 'int pw(void){return 0;}\n'
        files['pdirs/darwin/sub/d.c'] = 'int pd(void){return 0;}\n'
        L.append("pdfound = find_files('pdirs/**/*.c', "
                 "filter=filter_by_platform)")
        src_expr += ' + pdfound'
        req |= {'pdirs/common.c', 'pdirs/linux/l.c', 'pdirs/windows/w.c',
                'pdirs/darwin/sub/d.c'}
    if 'find_nocache' in F:
        files['nc/n1.c'] = 'int n1(void){return 0;}\n'
        files['nc/notes.md'] = 'n\n'
        files['nc/n_windows.c'] = 'int nw(void){return 0;}\n'
        L.append("ncfound = find_files('nc/*.c', extra='*.md', "
                 "filter=filter_by_platform, cache=False)")
        src_expr += ' + ncfound'
        req |= {'nc/n1.c', 'nc/notes.md', 'nc/n_windows.c'}
    if 'nodist_find' in F:
        files['private/p1.c'] = 'int p1(void){return 0;}\n'
        files['private/p2.c'] = 'int p2(void){return 0;}\n'
        L.append("priv = find_files('private/*.c', dist=False)")
        src_expr += ' + priv'
        forb |= {'private/p1.c', 'private/p2.c'}
    L.append("prog = executable('prog', {}{})".format(
        src_expr, ''.join(', ' + k for k in kw)))
    if 'generic' in F:
        files['data/blob.bin'] = 'blob\n'
        L.append("blob = generic_file('data/blob.bin')")
        L.append("install(blob, directory=Path('c18', InstallRoot.datadir))")
        req.add('data/blob.bin')
    if 'nodist_generic' in F:
        files['data/local.cfg'] = 'local\n'
        L.append("loc = generic_file('data/local.cfg', dist=False)")
        L.append("command('useloc', cmd=['cat', loc])")
        forb.add('data/local.cfg')
    if 'man' in F:
        files['doc/prog.1'] = '.TH PROG 1\n'
        L.append("mp = man_page('doc/prog.1', compress=False)")
        L.append('install(mp)')
        req.add('doc/prog.1')
    if 'extra_dist' in F:
        files['README.md'] = 'readme\n'
        files['extra/one.txt'] = '1\n'
        files['extra/deep/two.txt'] = '2\n'
        L.append("extra_dist(files=['README.md'], dirs=['extra'])")
        # (whether sub-directories of an extra_dist directory are included is
        # not documented: only its direct entries are required)
        req |= {'README.md', 'extra/one.txt'}
    if 'cmdfiles' in F:
        files['scripts/run.sh'] = '#!/bin/sh\n'
        L.append("command('runit', cmd=['sh', command.input], "
                 "files=['scripts/run.sh'])")
        req.add('scripts/run.sh')
    if 'copy' in F:
        files['orig.txt'] = 'orig\n'
        L.append("cp = copy_file('copied.txt', 'orig.txt')")
        L.append('default(cp, prog)')
        req.add('orig.txt')
    if 'extra_deps' in F:
        files['dep.stamp.in'] = 's\n'
        files['tables/crc.inc'] = 'c\n'
        L.append("build_step('stamp.out', cmd=['touch', 'stamp.out'], "
                 "extra_deps=['dep.stamp.in', Path('tables/crc.inc', "
                 "Root.srcdir)])")
        req |= {'dep.stamp.in', 'tables/crc.inc'}
    if 'submodule' in F:
        files['sub/build.bfg'] = ("executable('subprog', ['s.c'], "
                                  "extra_deps=[header_file('../shared.h')])"
                                  "\nsubmodule('deeper')\n")
        files['sub/s.c'] = 'int main(void){return 0;}\n'
        files['shared.h'] = '/* shared */\n'
        files['sub/deeper/build.bfg'] = "static_library('dl', ['d.c'])\n"
        files['sub/deeper/d.c'] = 'int d(void){return 0;}\n'
        L.append("submodule('sub')")
        req |= {'sub/build.bfg', 'sub/s.c', 'shared.h',
                'sub/deeper/build.bfg', 'sub/deeper/d.c'}
    files['options.bfg'] = "argument('level', default='1')\n"
    req.add('options.bfg')
    if 'opt_submodule' in F:
        files['options.bfg'] += "submodule('optsub')\n"
        files['optsub/options.bfg'] = ("argument('deep', default='d')\n"
                                       "submodule('more')\n")
        files['optsub/more/options.bfg'] = "argument('more', default='m')\n"
        req |= {'optsub/options.bfg', 'optsub/more/options.bfg'}
    files['build.bfg'] = '\n'.join(L) + '\n'
    req.add('build.bfg')
    for p, body in files.items():
        sandbox.write_file(os.path.join(src, p), body)
    return req, forb


def prop_dist(rec):
    def prop(case):
        F = set(case['features'])
        interesting = len(F) >= 4 and (
            F & {'find', 'find_platform', 'find_nocache', 'nodist_src',
                 'nodist_generic', 'nodist_find'})
        rec.case({'f:' + f for f in F} | {'target:' + case.get('format',
                                                                'dist')} | (
            {'regenerated-before-dist'} if case.get('regen_first') and
            F & {'find', 'find_platform'} else set()),
                 nontrivial=(sorted(F) if interesting else None), sample=case)
        with sandbox.scratch('c18') as tmp:
            src = os.path.join(tmp, 'src')
            bld = os.path.join(tmp, 'bld')
            req, forb = render(case, src)
            env = sandbox.base_env(os.path.join(tmp, 'home'))
            opts = ['--level=3']
            r = sandbox.configure(src, bld, env, backend='make', extra=opts)
            if r.rc != 0:
                raise Violation('dist/configure-failed', r.err.strip()[-800:],
                                case)
            if case.get('regen_first') and F & {'find', 'find_platform'}:
                # a matching file appears: the dist target's own Makefile
                # regenerates (lazily) before the archive is made
                clock = sandbox.Clock(tmp)
                clock.tick(tmp)
                if 'find' in F and case.get('late') == 'extra':
                    sandbox.write_file(os.path.join(src, 'tree/a/late.md'),
                                       'late doc\n')
                    req.add('tree/a/late.md')
                elif 'find' in F:
                    sandbox.write_file(os.path.join(src, 'tree/a/late.c'),
                                       'int late(void){return 0;}\n')
                    req.add('tree/a/late.c')
                else:
                    sandbox.write_file(os.path.join(src, 'plat/late.c'),
                                       'int late(void){return 0;}\n')
                    req.add('plat/late.c')
            fmt = case.get('format', 'dist')
            d = sandbox.run_make(bld, env, [fmt])
            tgz = os.path.join(bld, 'c18-1.0' + {
                'dist-bzip2': '.tar.bz2', 'dist-zip': '.zip'}.get(
                    fmt, '.tar.gz'))
            if d.rc != 0 or not os.path.exists(tgz):
                raise Violation('dist/target-failed', 'make {}: exit {}: {}'
                                .format(fmt, d.rc, d.err.strip()[-600:]),
                                case)
            unp = os.path.join(tmp, 'unp')
            members = set()
            if fmt == 'dist-zip':
                import zipfile
                with zipfile.ZipFile(tgz) as zf:
                    entries = [(i.filename, not i.is_dir())
                               for i in zf.infolist()]
                    zf.extractall(unp)
            else:
                with tarfile.open(tgz) as tf:
                    entries = [(m.name, m.isfile()) for m in tf.getmembers()]
                    tf.extractall(unp)
            for name, isfile in entries:
                n = posixpath.normpath(name)
                if not (n == 'c18-1.0' or n.startswith('c18-1.0/')):
                    raise Violation('dist/prefix', 'member {!r} outside '
                                    'the distribution prefix'.format(name),
                                    case)
                if isfile:
                    members.add(n[len('c18-1.0/'):])
            # what the build file itself reads from srcdir
            rel = make_relation(bld, src, env)
            from_makefile = set()
            for t, deps in rel.items():
                for dep in deps:
                    if dep.startswith('S:'):
                        p = dep[2:]
                        if os.path.isfile(os.path.join(src, p)):
                            from_makefile.add(p)
            missing = sorted((req | (from_makefile - forb)) - members)
            if missing:
                which = 'model' if set(missing) & req else 'build-file'
                raise Violation('dist/missing/' + missing[0].split('/')[0],
                                'the archive lacks {} ({} says the build '
                                'reads them); members: {}'.format(
                                    missing, which, sorted(members)), case)
            leaked = sorted(forb & members)
            if leaked:
                raise Violation('dist/dist-false-included', 'files marked '
                                'dist=False are in the archive: {}'.format(
                                    leaked), case)
            for m in members:
                if not os.path.exists(os.path.join(src, m)):
                    raise Violation('dist/not-from-srcdir', 'member {!r} is '
                                    'not a file of the source directory '
                                    '(build output?)'.format(m), case)
            # the unpacked tree configures to an equivalent build
            usrc = os.path.join(unp, 'c18-1.0')
            ubld = os.path.join(unp, 'bld')
            r2 = sandbox.configure(usrc, ubld, env, backend='make',
                                   extra=opts)
            if r2.rc != 0:
                raise Violation('dist/unpacked-configure-failed',
                                r2.err.strip()[-800:], case)
            if not (F & {'nodist_find'}):
                for fn in ('Makefile', 'compile_commands.json'):
                    with open(os.path.join(bld, fn)) as f:
                        a = f.read().replace(src, '@SRC@').replace(
                            bld, '@BLD@')
                    with open(os.path.join(ubld, fn)) as f:
                        b = f.read().replace(usrc, '@SRC@').replace(
                            ubld, '@BLD@')
                    # directory listing order differs between two trees, so
                    # lists of found files are compared as multisets per line
                    def canon(t):
                        if fn.endswith('.json'):
                            import json
                            return sorted(json.dumps(e, sort_keys=True)
                                          for e in json.loads(t))
                        return sorted(' '.join(sorted(l.split(' ')))
                                      for l in t.split('\n'))
                    if canon(a) != canon(b):
                        import difflib
                        dd = '\n'.join(list(difflib.unified_diff(
                            a.splitlines(), b.splitlines(), lineterm='',
                            n=0))[:10])
                        raise Violation('dist/unpacked-differs', '{} of the '
                                        'unpacked tree differs:\n{}'.format(
                                            fn, dd[:1200]), case)
    return prop


def _run(rec, seed, budget, shard, nshards):
    run_hypothesis(rec, cases(), prop_dist(rec), budget, seed,
                   shrink=(os.environ.get('VERIF_TIER') == 'thorough'))


def tasks(tier):
    return [Task('dist', _run, quick=16 * 6, thorough=16 * 150)]


def replay(task, case, rec):
    prop_dist(rec)(case)
