"""C08 — Automatic regeneration equals a fresh configure, and converges.

A stateful machine edits a generated project (scripts, toolchain file, files
and directories that do or do not match find_files patterns) and runs the
backend's own entry point (make / reference ninja), which decides by itself
whether to call `bfg9000 regenerate --lazy`.  After every build the build
directory is moved aside, a fresh configure with the original command line is
run into the same absolute path, and the build files are compared."""
import json
import os
import shutil

from hypothesis import strategies as st
from hypothesis.stateful import (RuleBasedStateMachine, rule, precondition,
                                 initialize)

from ..runner import Task, Violation, HarnessError, run_machine
from .. import sandbox

ID = 'C08'
LEVEL = 'exploration'
TECHNIQUE = ('stateful property-based testing (Hypothesis rule-based state '
             'machine): edit/build histories with a differential oracle '
             '(regenerated build files vs a fresh configure into the same '
             'path) and a convergence check')
RULE = ('Histories of <= 10 steps over a project using find_files (recursive '
        'pattern, exclude, filter_by_platform, extra, cache=False), '
        'directory(), header_directory(include=), a submodule, options.bfg '
        'and a toolchain file (whose successive states add, change and '
        'remove settings).  Rules: add / remove / rename files and '
        'directories that match or do not match, comment-only and semantic '
        'edits of build.bfg / options.bfg / submodule script / toolchain '
        'file, build (make or reference ninja).  Non-trivial: >= 2 edits of '
        'different kinds before some build, or an edit that changes a find '
        'result; distinct = backend + abstracted rule sequence.')
LEVEL_TEXT = ('Model-free differential oracle over generated histories: after '
              'each build the result of the backend-driven regeneration must '
              'be byte-identical to a fresh configure, and a second build '
              'must not invoke bfg9000 again.')
LEVEL_NOTE = ('Trusted: GNU Make 4.3 / reference Ninja deciding when to '
              'regenerate; the harness clock (every edit gets an mtime '
              'strictly newer than anything before).  Changes below a '
              'find_files(cache=False) pattern are documented not to trigger '
              'regeneration and are not generated.')
ASSUMPTIONS = ['mopack unusable: --no-resolve-packages']

BUILD_BFG = """\
project('c08', version='1.0')
global_options(['-DDEEP=' + str(argv.deep)], lang='c')
srcs = find_files('src/**/*.c'{extra})
plat = find_files('plat/*.c', filter=filter_by_platform)
data = find_paths('data/*', type='f', exclude=['*.tmp'])
nocache = find_paths('nocache/*.c', cache=False)
assets = directory('assets', include='*.png')
inc = header_directory('include', include='**/*.h')
vend = header_directory('vendor', include='*.h', dist=False)
sdk = header_directory({sdk!r})
def no_wip(path):
    return (FindResult.exclude if 'wip' in path.basename()
            else FindResult.include)
tools = find_files('tools/*.c'{custom})
gen = find_files('generated/*.c')
prog = executable('prog', ['main.c'] + srcs + plat + tools + gen,
                  includes=[inc, vend, sdk])
install(vend)
build_step('manifest.txt', cmd=['rec', 'MANIFEST', '--vf-out=manifest.txt'] +
           [i for i in data], files=data)
submodule('sub')
lib = library('c08lib', ['lib.c'])
{pkg}
{flags}
"""
SUB_BFG = """\
subsrcs = find_files('*.c')
static_library('sublib', subsrcs)
{flags}
"""
OPTIONS_BFG = """\
argument('level', default='1')
submodule('optsub')
{flags}
"""
OPTSUB_BFG = """\
argument('deep', default={deep!r})
{flags}
"""
# successive states of the toolchain file: settings are changed, added and
# removed again (an empty file makes no setting at all)
TC_STATES = [
    "compile_options('-O1', 'c')\n",
    "compile_options('-O2', 'c')\nlink_options('-Wl,--as-needed')\n",
    "compile_options('-O3 -g', 'c')\nenviron['VF_TC'] = 'x'\n",
    "",
    "link_options('-s')\ncompile_options(environ.get('CFLAGS', '') + "
    "' -DTC', 'c')\n",
    # another target architecture (the compiler is told with -m32)
    "target_platform('linux', 'i686')\ncompile_options('-O1', 'c')\n",
    "target_platform('linux', 'x86_64')\n",
]

DIRS = ['src', 'src/core', 'src/util', 'plat', 'data', 'assets', 'include',
        'include/detail', 'sub', 'other', 'tools', 'vendor']
NAMES = {
    'src': ['a.c', 'b.c', 'notes.md', 'c.h', 'x.cpp'],
    'src/core': ['k.c', 'l.c', 'README.md'],
    'src/util': ['u.c', 'v.txt'],
    'plat': ['io_linux.c', 'io_windows.c', 'common.c', 'x.txt'],
    'data': ['d1.dat', 'd2.dat', 'scratch.tmp', 'e~'],
    'assets': ['logo.png', 'icon.png', 'raw.psd'],
    'include': ['api.h', 'api.txt'],
    'include/detail': ['impl.h'],
    'sub': ['s1.c', 's2.c', 'doc.txt'],
    'other': ['unrelated.c', 'junk'],
    'tools': ['t1.c', 't_wip.c', 't2.c', 'zz.txt'],
    'vendor': ['v1.h', 'v2.h', 'v.txt'],
}
# ('generated' is the base of a find_files pattern and absent at first)
NEWDIRS = ['src/new', 'src/core/deep', 'include/extra', 'elsewhere',
           'src/.hidden', 'generated']


class RegenMachine(RuleBasedStateMachine):
    backend = 'make'
    use_extra = False
    use_pkg = False     # pkg_config(): the regeneration has several outputs
    use_custom = False  # one find_files() call has a custom filter function

    def __init__(self):
        super().__init__()
        self.ctx = sandbox.scratch('c08')
        self.tmp = os.path.realpath(self.ctx.__enter__())
        self.src = os.path.join(self.tmp, 'src')
        self.bld = os.path.join(self.tmp, 'bld')
        self.tc = os.path.join(self.tmp, 'toolchain.bfg')
        self.history = []
        self.flags = {'build': 0, 'sub': 0, 'options': 0, 'optsub': 0}
        self.comments = {'build': 0, 'sub': 0, 'options': 0, 'toolchain': 0,
                         'optsub': 0}
        self.tcstate = 0
        self.files = set()
        self.configured = False
        self.pending = []           # kinds of edits since the last build
        self.nontrivial = False
        self.builds = 0
        # a header directory outside the project that the configure-time
        # environment (only) makes one of the compiler's own
        self.sdk = os.path.join(self.tmp, 'sdk', 'include')
        self.env = sandbox.base_env(os.path.join(self.tmp, 'home'), stub=True,
                                    extra={'CC': 'cc',
                                           'C_INCLUDE_PATH': self.sdk})
        self.clock = None

    # -- helpers ---------------------------------------------------------
    def _fail(self, key, msg):
        v = Violation(key, msg, {'backend': self.backend,
                                 'use_extra': self.use_extra,
                                 'use_pkg': self.use_pkg,
                                 'use_custom': self.use_custom,
                                 'history': self.history})
        self._vf_holder['last'] = v
        raise v

    def _stamp(self, path):
        """Give `path` (and its parent directory) an mtime strictly newer
        than anything seen so far."""
        t = self.clock.tick(self.tmp)
        for p in (path, os.path.dirname(path)):
            if os.path.lexists(p):
                os.utime(p, ns=(t, t))

    def _write_scripts(self, which=('build', 'sub', 'options', 'toolchain',
                                    'optsub')):
        def flags(kind):
            out = ["command('flag_{}_{}', cmd=['true'])".format(kind, i)
                   for i in range(self.flags.get(kind, 0))]
            if kind == 'options':
                out = ["argument('opt{}', default='x')".format(i)
                       for i in range(self.flags['options'])]
            out += ['# comment {}'.format(i)
                    for i in range(self.comments[kind])]
            return '\n'.join(out)
        if 'build' in which:
            sandbox.write_file(
                os.path.join(self.src, 'build.bfg'), BUILD_BFG.format(
                    extra=", extra='*.md'" if self.use_extra else '',
                    sdk=self.sdk,
                    pkg=("pkg_config('c08pkg', version='1.0', libs=[lib])"
                         if self.use_pkg else ''),
                    # (a custom predicate cannot be saved in the find cache,
                    # which disables the lazy shortcut: only in some runs)
                    custom=', filter=no_wip' if self.use_custom else '',
                    flags=flags('build')))
        if 'sub' in which:
            sandbox.write_file(os.path.join(self.src, 'sub', 'build.bfg'),
                               SUB_BFG.format(flags=flags('sub')))
        if 'options' in which:
            sandbox.write_file(os.path.join(self.src, 'options.bfg'),
                               OPTIONS_BFG.format(flags=flags('options')))
        if 'optsub' in which:
            # an options script included from options.bfg; its argument's
            # default value ends up in a compile flag
            sandbox.write_file(
                os.path.join(self.src, 'optsub', 'options.bfg'),
                OPTSUB_BFG.format(deep='d{}'.format(self.flags['optsub']),
                                  flags='\n'.join(
                                      '# comment {}'.format(i) for i in range(
                                          self.comments['optsub']))))
        if 'toolchain' in which:
            sandbox.write_file(self.tc, TC_STATES[self.tcstate] +
                               '\n'.join('# c{}'.format(i) for i in range(
                                   self.comments['toolchain'])) + '\n')

    def _configure_args(self):
        return ['--toolchain=' + self.tc, '--level=2', '--prefix=/opt/c08']

    @initialize()
    def setup(self):
        os.makedirs(self.src)
        os.makedirs(self.sdk)
        for d in DIRS:
            os.makedirs(os.path.join(self.src, d), exist_ok=True)
        for d, names in NAMES.items():
            for n in names[:2]:
                self._add(d, n)
        sandbox.write_file(os.path.join(self.src, 'main.c'),
                           'int main(void){return 0;}\n')
        sandbox.write_file(os.path.join(self.src, 'lib.c'),
                           'int c08lib(void){return 0;}\n')
        os.makedirs(os.path.join(self.src, 'nocache'))
        sandbox.write_file(os.path.join(self.src, 'nocache', 'n.c'),
                           'int n(void){return 0;}\n')
        self._write_scripts()
        self.clock = sandbox.Clock(self.tmp)
        r = sandbox.configure(self.src, self.bld, self.env,
                              backend=self.backend,
                              extra=self._configure_args())
        if r.rc != 0:
            raise HarnessError('initial configure failed: ' + r.err[-800:])
        self.configured = True
        self.history.append(['configure'])

    def _add(self, d, n):
        p = os.path.join(self.src, d, n)
        ident = ''.join(c if c.isalnum() else '_' for c in d + '_' + n)
        sandbox.write_file(p, 'int f_{}(void){{return 0;}}\n'.format(ident)
                           if n.endswith(('.c', '.cpp')) else 'x\n')
        self.files.add(os.path.join(d, n))

    # -- rules -----------------------------------------------------------
    @rule(d=st.sampled_from(DIRS + NEWDIRS + ['src/moved', 'src/core2']),
          data=st.data())
    def add_file(self, d, data):
        if not os.path.isdir(os.path.join(self.src, d)):
            return
        n = data.draw(st.sampled_from(NAMES.get(d, []) + ['zz_new.c', 'zz_new.h',
                                                  'new_windows.c', 'n.png',
                                                  'n.dat']))
        rel = os.path.join(d, n)
        if rel in self.files:
            return
        self._add(d, n)
        self._stamp(os.path.join(self.src, rel))
        self.history.append(['add_file', rel])
        self.pending.append('add_file')

    @precondition(lambda self: len(self.files) > 3)
    @rule(data=st.data())
    def remove_file(self, data):
        rel = data.draw(st.sampled_from(sorted(self.files)))
        p = os.path.join(self.src, rel)
        os.unlink(p)
        self.files.discard(rel)
        self._stamp(p)
        self.history.append(['remove_file', rel])
        self.pending.append('remove_file')

    @precondition(lambda self: len(self.files) > 3)
    @rule(data=st.data(), newname=st.sampled_from(
        ['renamed.c', 'renamed.h', 'renamed.txt', 'r_windows.c', 'r.dat']))
    def rename_file(self, data, newname):
        rel = data.draw(st.sampled_from(sorted(self.files)))
        new = os.path.join(os.path.dirname(rel), newname)
        if new in self.files:
            return
        os.rename(os.path.join(self.src, rel), os.path.join(self.src, new))
        self.files.discard(rel)
        self.files.add(new)
        self._stamp(os.path.join(self.src, new))
        self.history.append(['rename_file', rel, new])
        self.pending.append('rename_file')

    @rule(d=st.sampled_from(NEWDIRS), n=st.sampled_from(
        ['nd.c', 'nd.h', 'nd.txt']))
    def add_dir(self, d, n):
        full = os.path.join(self.src, d)
        if os.path.exists(full) or not os.path.isdir(os.path.dirname(full)):
            return
        os.makedirs(full)
        sandbox.write_file(os.path.join(full, n),
                           'int nd_{}(void){{return 0;}}\n'.format(
                               ''.join(c if c.isalnum() else '_' for c in d))
                           if n.endswith('.c') else 'x\n')
        self.files.add(os.path.join(d, n))
        self._stamp(os.path.join(full, n))
        self._stamp(full)
        self.history.append(['add_dir', d, n])
        self.pending.append('add_dir')

    @rule(d=st.sampled_from(['src/core', 'src/util', 'include/detail',
                             'other'] + NEWDIRS))
    def remove_dir(self, d):
        full = os.path.join(self.src, d)
        if not os.path.isdir(full):
            return
        shutil.rmtree(full)
        self.files = {f for f in self.files
                      if not (f == d or f.startswith(d + '/'))}
        self._stamp(full)
        self.history.append(['remove_dir', d])
        self.pending.append('remove_dir')

    @rule(d=st.sampled_from(['src/core', 'src/util', 'include/detail']),
          new=st.sampled_from(['moved', 'core2']))
    def rename_dir(self, d, new):
        full = os.path.join(self.src, d)
        dst = os.path.join(os.path.dirname(full), new)
        if not os.path.isdir(full) or os.path.exists(dst):
            return
        os.rename(full, dst)
        nd = os.path.join(os.path.dirname(d), new)
        self.files = {(nd + f[len(d):]) if (f == d or f.startswith(d + '/'))
                      else f for f in self.files}
        self._stamp(dst)
        self.history.append(['rename_dir', d, nd])
        self.pending.append('rename_dir')

    @rule(which=st.sampled_from(['build', 'sub', 'options', 'toolchain',
                                 'optsub']),
          semantic=st.booleans())
    def edit_script(self, which, semantic):
        if which == 'sub' and not os.path.isdir(os.path.join(self.src,
                                                             'sub')):
            return
        if semantic:
            if which == 'toolchain':
                self.tcstate = (self.tcstate + 1) % len(TC_STATES)
            else:
                self.flags[which] += 1
        else:
            self.comments[which] += 1
        self._write_scripts((which,))
        path = {'build': os.path.join(self.src, 'build.bfg'),
                'sub': os.path.join(self.src, 'sub', 'build.bfg'),
                'options': os.path.join(self.src, 'options.bfg'),
                'optsub': os.path.join(self.src, 'optsub', 'options.bfg'),
                'toolchain': self.tc}[which]
        t = self.clock.tick(self.tmp)
        os.utime(path, ns=(t, t))
        self.history.append(['edit_script', which,
                             'semantic' if semantic else 'comment'])
        self.pending.append('edit_' + which + ('_sem' if semantic else '_c'))

    def _bfg_calls(self, log):
        if not os.path.exists(log):
            return []
        with open(log) as f:
            return [l.strip() for l in f if l.strip()]

    @precondition(lambda self: self.configured and self.builds < 5)
    @rule()
    def build(self):
        if not os.path.isdir(os.path.join(self.src, 'sub')) or \
                not os.path.exists(os.path.join(self.src, 'sub',
                                                'build.bfg')):
            return
        self.builds += 1
        if len(set(self.pending)) >= 2 or any(
                p in ('add_file', 'remove_file', 'rename_file', 'add_dir',
                      'remove_dir', 'rename_dir') for p in self.pending):
            self.nontrivial = True
        self.history.append(['build'])
        self.clock.tick(self.tmp)
        log = os.path.join(self.tmp, 'bfg.log.{}'.format(self.builds))
        env = dict(self.env, VF_BFGLOG=log, VF_BFG_MAX='6')
        # the build tool is started from an environment that no longer has
        # the variable: regeneration works from the saved one
        del env['C_INCLUDE_PATH']
        target = 'Makefile' if self.backend == 'make' else 'build.ninja'
        r = sandbox.run_backend(self.backend, self.bld, env, [target])
        if 'regeneration loop guard' in r.err + r.out:
            self._fail('regen/not-converged/loop', 'one run of {} invoked '
                       'bfg9000 more than 6 times after edits {}: the build '
                       'file keeps regenerating itself: {}'.format(
                           self.backend, self.pending,
                           self._bfg_calls(log)[:8]))
        if self.backend == 'ninja' and r.rc == 2 and \
                'refninja: unsupported' in r.err:
            raise HarnessError('reference ninja: ' + r.err[-500:])
        if r.rc != 0:
            # legitimate iff the edited project cannot be configured at all
            with sandbox.scratch('c08f') as t2:
                f = sandbox.configure(self.src, os.path.join(t2, 'b'),
                                      self.env, backend=self.backend,
                                      extra=self._configure_args())
            if f.rc != 0:
                self._vf_rec.classes['project-became-invalid'] += 1
                self.configured = False     # nothing more to learn here
                self.pending = []
                return
            self._fail('regen/build-failed', 'regeneration through {} failed '
                       'after {} although a fresh configure succeeds: {}'
                       .format(self.backend, self.pending,
                               (r.err + r.out).strip()[-700:]))
        first_calls = self._bfg_calls(log)
        # convergence: a second run regenerates nothing
        self.clock.tick(self.tmp)
        log2 = log + '.again'
        r2 = sandbox.run_backend(self.backend, self.bld,
                                 dict(self.env, VF_BFGLOG=log2), [target])
        again = self._bfg_calls(log2)
        if r2.rc != 0 or again:
            self._fail('regen/not-converged', 'a second run right after the '
                       'first invoked bfg9000 again ({}) or failed (exit {}) '
                       'after edits {}'.format(again, r2.rc, self.pending))
        # differential: fresh configure into the same absolute path
        keep = self.bld + '.keep'
        os.rename(self.bld, keep)
        try:
            # (another hash seed than the regenerations: what is written may
            # not depend on it)
            f = sandbox.configure(self.src, self.bld,
                                  dict(self.env, PYTHONHASHSEED='4711'),
                                  backend=self.backend,
                                  extra=self._configure_args())
            if f.rc != 0:
                # the edited project no longer configures at all: then the
                # regeneration must have failed too (it did not)
                self._fail('regen/fresh-fails', 'fresh configure fails ({}) '
                           'but the regeneration succeeded'.format(
                               f.err.strip()[-400:]))
            fresh = collect(self.bld)
        finally:
            shutil.rmtree(self.bld, ignore_errors=True)
            os.rename(keep, self.bld)
        mine = collect(self.bld)
        for fn in sorted(set(fresh) | set(mine)):
            if fresh.get(fn) != mine.get(fn):
                import difflib
                a = fresh.get(fn)
                b = mine.get(fn)
                if isinstance(a, bytes) or isinstance(b, bytes):
                    d = '\n'.join(list(difflib.unified_diff(
                        (a or b'').decode('utf-8', 'replace').splitlines(),
                        (b or b'').decode('utf-8', 'replace').splitlines(),
                        'fresh configure', 'after regeneration', lineterm='',
                        n=0))[:12])
                else:
                    d = 'fresh: {!r}\nregenerated: {!r}'.format(a, b)
                skipped = not first_calls
                kind = ('stale' if skipped or all(
                    'regenerate' not in c for c in first_calls)
                    else 'differs')
                self._fail('regen/' + kind + '/' + fn.split('/')[0],
                           '{} after edits {} (bfg9000 calls: {}) differs '
                           'from a fresh configure:\n{}'.format(
                               fn, self.pending, first_calls, d[:1500]))
        self.pending = []

    def teardown(self):
        rec = self._vf_rec
        if self.builds:
            ops = [h[0] if h[0] != 'edit_script' else
                   'edit_{}_{}'.format(h[1], h[2]) for h in self.history]
            rec.case({'op:' + o for o in set(ops)} | {self.backend},
                     nontrivial=([self.backend, self.use_extra, ops]
                                 if self.nontrivial else None),
                     sample={'backend': self.backend,
                             'history': self.history})
        self.ctx.__exit__(None, None, None)


def collect(bld):
    out = {}
    for fn in ('Makefile', 'build.ninja', 'compile_commands.json'):
        p = os.path.join(bld, fn)
        if os.path.exists(p):
            with open(p, 'rb') as f:
                out[fn] = f.read()
    pc = os.path.join(bld, 'pkgconfig')
    if os.path.isdir(pc):
        for fn in sorted(os.listdir(pc)):
            with open(os.path.join(pc, fn), 'rb') as f:
                out['pkgconfig/' + fn] = f.read()
    p = os.path.join(bld, '.bfg_find_deps')
    if os.path.exists(p):
        with open(p) as f:
            out['.bfg_find_deps'] = sorted(set(
                f.read().replace('\\\n', ' ').split()))
    p = os.path.join(bld, '.bfg_find_cache')
    if os.path.exists(p):
        with open(p) as f:
            d = json.load(f)
        out['.bfg_find_cache'] = sorted(json.dumps(e, sort_keys=True)
                                        for e in d['data']['cache'])
    return out


def _machine(backend, use_extra, use_pkg=False, use_custom=False):
    return type('RegenMachine_{}_{}_{}_{}'.format(
        backend, int(use_extra), int(use_pkg), int(use_custom)),
        (RegenMachine,), {'backend': backend, 'use_extra': use_extra,
                          'use_pkg': use_pkg, 'use_custom': use_custom})


def _run(rec, seed, budget, shard, nshards, backend, use_pkg=False,
         use_custom=False):
    # `extra=` is left out while the known finding about the dist-list order
    # is open (counted as excluded)
    use_extra = not rec.is_open('regen/differs/dist-order-with-extra')
    if not use_extra:
        rec.excluded(budget)
    run_machine(rec, _machine(backend, use_extra, use_pkg, use_custom), budget,
                16, seed)


def replay_history(case, rec):
    """Re-run a recorded history without Hypothesis."""
    M = _machine(case['backend'], case.get('use_extra', False),
                 case.get('use_pkg', False), case.get('use_custom', False))
    holder = {'last': None}
    M._vf_holder = holder
    M._vf_rec = rec
    m = M()
    try:
        for h in case['history']:
            op = h[0]
            if op == 'configure':
                m.setup()
            elif op == 'add_file':
                d, n = os.path.split(h[1])
                m._add(d, n)
                m._stamp(os.path.join(m.src, h[1]))
                m.pending.append(op)
            elif op == 'remove_file':
                p = os.path.join(m.src, h[1])
                os.unlink(p)
                m.files.discard(h[1])
                m._stamp(p)
                m.pending.append(op)
            elif op == 'rename_file':
                os.rename(os.path.join(m.src, h[1]),
                          os.path.join(m.src, h[2]))
                m.files.discard(h[1])
                m.files.add(h[2])
                m._stamp(os.path.join(m.src, h[2]))
                m.pending.append(op)
            elif op == 'add_dir':
                m.add_dir(d=h[1], n=h[2])
            elif op == 'remove_dir':
                full = os.path.join(m.src, h[1])
                shutil.rmtree(full)
                m.files = {f for f in m.files if not (
                    f == h[1] or f.startswith(h[1] + '/'))}
                m._stamp(full)
                m.pending.append(op)
            elif op == 'rename_dir':
                os.rename(os.path.join(m.src, h[1]),
                          os.path.join(m.src, h[2]))
                m._stamp(os.path.join(m.src, h[2]))
                m.pending.append(op)
            elif op == 'edit_script':
                which, sem = h[1], h[2] == 'semantic'
                if sem:
                    if which == 'toolchain':
                        m.tcstate = (m.tcstate + 1) % len(TC_STATES)
                    else:
                        m.flags[which] += 1
                else:
                    m.comments[which] += 1
                m._write_scripts((which,))
                path = {'build': os.path.join(m.src, 'build.bfg'),
                        'sub': os.path.join(m.src, 'sub', 'build.bfg'),
                        'options': os.path.join(m.src, 'options.bfg'),
                        'optsub': os.path.join(m.src, 'optsub',
                                               'options.bfg'),
                        'toolchain': m.tc}[which]
                t = m.clock.tick(m.tmp)
                os.utime(path, ns=(t, t))
                m.pending.append('edit')
            elif op == 'build':
                m.build()
    finally:
        m.ctx.__exit__(None, None, None)


def _run_core(rec, seed, budget, shard, nshards):
    """Short canonical histories, always run: one edit of every script
    kind (semantic and comment-only) between two builds, per backend."""
    jobs = []
    for backend in ('make', 'ninja'):
        for which in ('build', 'sub', 'options', 'optsub', 'toolchain'):
            for kind in ('semantic', 'comment'):
                for pkg, custom in ((False, False), (True, False),
                                    (False, True)):
                    jobs.append({'backend': backend, 'use_extra': False,
                                 'use_pkg': pkg, 'use_custom': custom,
                                 'history': [
                                     ['configure'], ['build'],
                                     ['edit_script', which, kind],
                                     ['build'], ['build']]})
        # the toolchain file goes through all its states (settings appear,
        # change and disappear again)
        hist = [['configure'], ['build']]
        for _ in range(len(TC_STATES)):
            hist += [['edit_script', 'toolchain', 'semantic'], ['build']]
        jobs.append({'backend': backend, 'use_extra': False, 'use_pkg': False,
                     'use_custom': False, 'history': hist})
        # a file appears where one of the find_files()/directory() calls looks
        for rel in ('src/zz_new.c', 'tools/t2.c', 'include/zz_new.h',
                    'vendor/zz_new.h',
                    'assets/n.png', 'data/n.dat', 'sub/zz_new.c'):
            for pkg, custom in ((False, False), (True, False), (False, True)):
                jobs.append({'backend': backend, 'use_extra': False,
                             'use_pkg': pkg, 'use_custom': custom,
                             'history': [['configure'], ['build'],
                                         ['add_file', rel], ['build'],
                                         ['build']]})
    for k, case in enumerate(jobs):
        if k % nshards != shard:
            continue
        rec.case({case['backend'], 'edit:' + case['history'][2][1]},
                 nontrivial=[case['backend'], case['use_pkg'],
                             case['use_custom'], case['history'][2][1:]],
                 sample=case)
        try:
            replay_history(case, rec)
        except Violation as v:
            rec.fail('core/' + v.key, v.message, case)


def tasks(tier):
    return [Task('core-histories', _run_core, quick=1, thorough=1),
            Task('regen-make', _run, quick=16 * 8, thorough=16 * 60,
                 backend='make'),
            Task('regen-ninja', _run, quick=16 * 6, thorough=16 * 60,
                 backend='ninja'),
            Task('regen-make-pkg', _run, quick=16 * 3, thorough=16 * 30,
                 backend='make', use_pkg=True),
            Task('regen-ninja-pkg', _run, quick=16 * 2, thorough=16 * 30,
                 backend='ninja', use_pkg=True),
            Task('regen-make-custom', _run, quick=16 * 2, thorough=16 * 30,
                 backend='make', use_custom=True)]


def replay(task, case, rec):
    replay_history(case, rec)
