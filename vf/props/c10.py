"""C10 — Interrupted or failed regeneration never leaves silently stale build
files.

Fault enumeration: for a (project, edit) pair the complete list of
file-system mutation events of the regeneration run is recorded
(tools/faultbin/bfg9000, VF_FAULT=count) and EVERY (event, variant) is
executed from the same saved pre-state; then the backend makes one and two
further un-faulted attempts.  Reference = the uninterrupted run."""
import itertools
import os
import shutil

from ..runner import Task, Violation, HarnessError
from .. import sandbox

ID = 'C10'
LEVEL = 'fault_enumeration'
TECHNIQUE = ('fault injection with exhaustive enumeration of crash points '
             '(every file-system mutation event x every variant of one '
             'regeneration run) over a generated family of (project, edit) '
             'pairs; oracle = uninterrupted run from the same pre-state')
RULE = ('Family: project features {find_files, pkg_config(), install+test} x '
        'edit {add matching file, remove matching file, semantic build.bfg '
        'edit, the script starts looking into a second directory, script '
        'raises, script aborts with SystemExit(message / code), '
        'rule emission raises (duplicate target), re-configuration of the '
        'build directory with another --prefix (followed by forced '
        'regenerations and, separately, by the lazy one the build file '
        'runs)} x '
        '{make, ninja}.  Per pair every mutation event (open-for-write, '
        'close, remove, utime, makedirs, rename) of the regeneration is hit '
        'with every variant (before / trunc / partial / after / raise / a '
        'write() failing half-way / KeyboardInterrupt), '
        'followed by two un-faulted attempts through the backend and, where '
        'find_files is used, by a further directory change that the recovered '
        'build directory must pick up like the uninterrupted one.  '
        'Non-trivial: a crash point strictly between two persistent writes '
        'of different files; distinct = (backend, features, edit, event kind, '
        'file role, variant).  The quick tier enumerates a seed-chosen subset '
        'of the pairs completely, the thorough tier all of them.')
LEVEL_TEXT = ('Exhaustive enumeration of Python-level crash points of a '
              'regeneration run for each pair (the sub-space is finite and '
              'is covered completely), with the uninterrupted run as '
              'reference: after the fault each follow-up attempt must fail '
              'visibly or leave the build file and every declared output of '
              'the regeneration step equal to the reference.')
LEVEL_NOTE = ('Crash points are at the granularity of Python-level file '
              'operations (data is committed at close); torn writes inside '
              'the kernel and power-loss reordering are not modelled.  '
              'Trusted: GNU Make 4.3 / reference Ninja as the caller of '
              '`bfg9000 regenerate --lazy`.')
ASSUMPTIONS = ['mopack unusable: --no-resolve-packages',
               'a killed regeneration is modelled as os._exit(137)']

FAULTBFG = os.path.join(sandbox.VERIF, 'tools', 'faultbin', 'bfg9000')

FEATURE_SETS = [('find',), ('find', 'pkgconfig'), ('find', 'install'),
                ('find', 'pkgconfig', 'install'), ('pkgconfig',)]
EDITS = ['add_match', 'remove_match', 'semantic', 'script_raises',
         'script_exits_msg', 'script_exits_code', 'rule_raises',
         'reconfigure', 'add_pattern']
# edits after which the script cannot be executed to its end
SCRIPT_FAILS = ('script_raises', 'script_exits_msg', 'script_exits_code')
BACKENDS = ['make', 'ninja']


def all_pairs():
    out = []
    for feats, edit, backend in itertools.product(FEATURE_SETS, EDITS,
                                                  BACKENDS):
        if edit in ('add_match', 'remove_match', 'add_pattern') and \
                'find' not in feats:
            continue
        if edit == 'reconfigure' and 'pkgconfig' not in feats:
            continue
        out.append({'features': list(feats), 'edit': edit,
                    'backend': backend})
    return out


def script(feats, edit_applied):
    L = ["project('c10', version='1.0')"]
    if 'find' in feats and edit_applied == 'add_pattern':
        # the edit makes the script look into a second directory
        L.append("srcs = find_files('src/*.c') + find_files('extra/*.c')")
    elif 'find' in feats:
        L.append("srcs = find_files('src/*.c')")
    else:
        L.append("srcs = ['src/a.c', 'src/b.c']")
    L.append("lib = library('c10lib', srcs)")
    L.append("prog = executable('prog', ['main.c'], libs=[lib])")
    if 'pkgconfig' in feats:
        L.append("pkg_config('c10pkg', version='1.0', libs=[lib])")
    if 'install' in feats:
        L.append('install(prog)')
        L.append("t = executable('t', ['t.c'], libs=[lib])")
        L.append('test(t)')
    if edit_applied == 'semantic':
        L.append("command('added', cmd=['true'])")
    elif edit_applied == 'script_raises':
        L.append("raise RuntimeError('boom')")
    elif edit_applied == 'script_exits_msg':
        # aborts half-way: the rest of the project is never declared
        L.insert(3, "raise SystemExit('fatal: boom')")
    elif edit_applied == 'script_exits_code':
        L.insert(3, "raise SystemExit(3)")
    elif edit_applied == 'rule_raises':
        L.append("command('all', cmd=['true'])")
    return '\n'.join(L) + '\n'


def make_prestate(pair, tmp):
    src = os.path.join(tmp, 'src')
    bld = os.path.join(tmp, 'bld')
    for n in ('a', 'b'):
        sandbox.write_file(os.path.join(src, 'src', n + '.c'),
                           'int {}(void){{return 0;}}\n'.format(n))
    for n in ('main', 't'):
        sandbox.write_file(os.path.join(src, n + '.c'),
                           'int main(void){return 0;}\n')
    sandbox.write_file(os.path.join(src, 'extra', 'e1.c'),
                       'int e1(void){return 0;}\n')
    sandbox.write_file(os.path.join(src, 'build.bfg'),
                       script(pair['features'], None))
    env = sandbox.base_env(os.path.join(tmp, 'home'), stub=True,
                           extra={'CC': 'cc'})
    r = sandbox.configure(src, bld, env, backend=pair['backend'],
                          extra=['--prefix=/opt/c10'], launcher=FAULTBFG)
    if r.rc != 0:
        raise HarnessError('pre-state configure failed: ' + r.err[-800:])
    clock = sandbox.Clock(tmp)
    t = clock.tick(tmp)
    e = pair['edit']
    if e == 'add_match':
        p = os.path.join(src, 'src', 'new.c')
        sandbox.write_file(p, 'int newf(void){return 0;}\n')
        for q in (p, os.path.dirname(p)):
            os.utime(q, ns=(t, t))
    elif e == 'remove_match':
        p = os.path.join(src, 'src', 'b.c')
        os.unlink(p)
        os.utime(os.path.dirname(p), ns=(t, t))
    elif e != 'reconfigure':
        p = os.path.join(src, 'build.bfg')
        sandbox.write_file(p, script(pair['features'], e))
        os.utime(p, ns=(t, t))
    clock.tick(tmp)
    return src, bld, env


def buildfile(backend):
    return 'Makefile' if backend == 'make' else 'build.ninja'


def declared_outputs(bld, backend):
    """Contents of the build file and of the other files the regeneration
    step declares as outputs (immediate files: pkg-config .pc)."""
    out = {}
    names = [buildfile(backend)]
    pc = os.path.join(bld, 'pkgconfig')
    if os.path.isdir(pc):
        names += ['pkgconfig/' + n for n in sorted(os.listdir(pc))]
    for n in names:
        p = os.path.join(bld, n)
        if os.path.exists(p):
            with open(p, 'rb') as f:
                out[n] = f.read()
        else:
            out[n] = None
    return out


def restore(saved, bld):
    shutil.rmtree(bld, ignore_errors=True)
    shutil.copytree(saved, bld, symlinks=True)
    # copytree -> copy2 keeps mtimes; directories too
    for dp, dn, fn in os.walk(saved):
        for n in dn:
            s = os.path.join(dp, n)
            d = os.path.join(bld, os.path.relpath(s, saved))
            st_ = os.stat(s)
            os.utime(d, ns=(st_.st_atime_ns, st_.st_mtime_ns))
    st_ = os.stat(saved)
    os.utime(bld, ns=(st_.st_atime_ns, st_.st_mtime_ns))


NEW_PREFIX = '/opt/c10-new'


def attempt(backend, bld, env, fault=None, log=None, how='backend', src=None):
    """how: 'backend' - the regeneration the build file itself runs;
    'reconfigure' - configure the existing build directory again with another
    --prefix; 'regenerate' - a forced `bfg9000 regenerate`; 'lazy' - the
    `bfg9000 regenerate --lazy` the build files themselves run."""
    e = dict(env)
    if how != 'backend':
        if fault:
            e['VF_FAULT'] = fault
        if log:
            e['VF_FAULT_LOG'] = log
        bfg = FAULTBFG
        if how == 'reconfigure':
            argv = [bfg, 'configure-into', src, bld, '--backend=' + backend,
                    '--no-resolve-packages', '--prefix=' + NEW_PREFIX]
        elif how == 'lazy':
            argv = [bfg, 'regenerate', '--lazy', bld]
        else:
            argv = [bfg, 'regenerate', bld]
        return sandbox.run(argv, os.path.dirname(bld), e)
    if fault:
        e['VF_FAULT'] = fault
    if log:
        e['VF_FAULT_LOG'] = log
    return sandbox.run_backend(backend, bld, e, [buildfile(backend)])


VARIANTS = {'open-w': ['before', 'trunc', 'raise', 'wfail', 'intr'],
            'close': ['partial', 'after', 'raise']}
DEFAULT_VARIANTS = ['before', 'after', 'raise', 'intr']


def role(path):
    b = os.path.basename(path)
    if b.endswith('.tmp'):
        b = b[:-4]
    if b in ('Makefile', 'build.ninja'):
        return 'buildfile'
    if b.endswith('.pc'):
        return 'pcfile'
    return b


def enumerate_pair(rec, pair, shard, nshards, only=None):
    backend = pair['backend']
    with sandbox.scratch('c10') as tmp:
        src, bld, env = make_prestate(pair, tmp)
        saved = os.path.join(tmp, 'saved')
        shutil.copytree(bld, saved, symlinks=True)
        restore(saved, bld)
        before = declared_outputs(bld, backend)
        # reference: the uninterrupted run
        log = os.path.join(tmp, 'events')
        # (a re-configuration is the faulted run itself; the attempts that
        # follow it are forced regenerations)
        first = 'reconfigure' if pair['edit'] == 'reconfigure' else 'backend'
        later = 'regenerate' if pair['edit'] == 'reconfigure' else 'backend'
        r = attempt(backend, bld, env, fault='count', log=log, how=first,
                    src=src)
        ref_rc = r.rc
        ref = declared_outputs(bld, backend)
        events = []
        if os.path.exists(log):
            with open(log) as f:
                for line in f:
                    i, kind, path = line.rstrip('\n').split(' ', 2)
                    events.append((int(i), kind, path))
        expect_fail = pair['edit'] in SCRIPT_FAILS + ('rule_raises',)
        case0 = dict(pair)
        if expect_fail:
            if ref_rc == 0:
                raise Violation('fault/raise-reported-success', 'the script/'
                                'rule hook raises but the regeneration '
                                'through {} exited 0'.format(backend), case0)
            if pair['edit'] in SCRIPT_FAILS and ref != before:
                raise Violation('fault/raise-touched-buildfile', 'the build '
                                'script raised, yet {} changed'.format(
                                    [k for k in ref if ref[k] != before[k]]),
                                case0)
        elif ref_rc != 0:
            raise HarnessError('uninterrupted regeneration failed: ' +
                               (r.err + r.out)[-800:])
        # second uninterrupted attempt must be stable
        r2 = attempt(backend, bld, env, how=later, src=src)
        if not expect_fail and (r2.rc != 0 or
                                declared_outputs(bld, backend) != ref):
            raise Violation('fault/reference-unstable', 'a second '
                            'uninterrupted attempt changed the result', case0)
        # a later change the recovered build directory must handle like the
        # uninterrupted one: a new file where the (new) script looks
        probe_rel = None
        ref_probe = None
        if 'find' in pair['features'] and not expect_fail and \
                pair['edit'] != 'reconfigure':
            probe_rel = 'extra/e2.c' if pair['edit'] == 'add_pattern' \
                else 'src/probe.c'

            def add_probe():
                pp = os.path.join(src, probe_rel)
                sandbox.write_file(pp, 'int probe(void){return 0;}\n')
                t_ = sandbox.Clock(tmp).tick(tmp)
                for q in (pp, os.path.dirname(pp)):
                    os.utime(q, ns=(t_, t_))

            def remove_probe():
                pp = os.path.join(src, probe_rel)
                if os.path.exists(pp):
                    os.unlink(pp)
            add_probe()
            rp = attempt(backend, bld, env, how=later, src=src)
            ref_probe = declared_outputs(bld, backend)
            remove_probe()
            if rp.rc != 0 or ref_probe == ref:
                raise HarnessError('probe step had no effect on the '
                                   'uninterrupted run')
        points = []
        for (i, kind, path) in events:
            for v in VARIANTS.get(kind, DEFAULT_VARIANTS):
                points.append((i, kind, path, v))
        if only is not None:
            # replay addresses a crash point by (event kind, file role,
            # variant), first occurrence: stable across refactorings
            sel = [p for p in points
                   if (p[1], role(p[2]), p[3]) == tuple(only)]
            points = sel[:1]
        prev_path = None
        for n, (i, kind, path, v) in enumerate(points):
            if only is None and n % nshards != shard:
                continue
            # non-trivial: strictly between persistent writes of two files
            others = {p for (_, k, p) in events[:i] if k == 'close'}
            between = bool(others - {path}) and any(
                k == 'open-w' for (_, k, p) in events[i:])
            rec.case({'event:' + kind, 'variant:' + v, 'edit:' + pair['edit'],
                      backend, 'role:' + role(path)},
                     nontrivial=([backend, pair['features'], pair['edit'],
                                  kind, role(path), v] if between else None),
                     sample={'pair': pair, 'event': [i, kind, role(path)],
                             'variant': v})
            case = dict(pair, event=i, variant=v, kind=kind,
                        path=os.path.relpath(path, tmp))
            restore(saved, bld)
            first_w = min([j for (j, k_, _) in events if k_ == 'open-w'] or
                          [0])
            if pair['edit'] == 'reconfigure' and (
                    i < first_w or (i == first_w and v in ('before', 'raise',
                                                            'intr'))):
                # nothing of the new configuration was written yet: the old
                # one simply stays in force
                continue
            f = attempt(backend, bld, env, fault='{}:{}'.format(i, v),
                        how=first, src=src)
            if f.rc == 0 and not expect_fail:
                # the injected fault was swallowed: the result must still be
                # complete
                if declared_outputs(bld, backend) != ref:
                    rec.fail('fault/swallowed/{}:{}'.format(kind, role(path)),
                             'fault {} at event {} ({} {}) was swallowed: '
                             'exit 0 but outputs differ from the '
                             'uninterrupted run'.format(v, i, kind,
                                                        role(path)), case)
            for k in (1, 2):
                a = attempt(backend, bld, env, how=later, src=src)
                if a.rc != 0:
                    if not expect_fail and k == 2:
                        # failing visibly is allowed; failing forever is not
                        # this property's subject
                        pass
                    continue
                now = declared_outputs(bld, backend)
                bad = [fn for fn in ref if now.get(fn) != ref[fn]]
                if expect_fail:
                    rec.fail('fault/raise-then-success/' + pair['edit'],
                             'attempt {} after fault {} at event {} exited 0 '
                             'although the script/rule still raises'.format(
                                 k, v, i), case)
                elif bad:
                    stale = [fn for fn in bad if now.get(fn) == before.get(fn)]
                    rec.fail(
                        'fault/silently-stale/{}/after-{}:{}'.format(
                            pair['edit'], kind, role(path)),
                        'attempt {} after fault {} at event {} ({} {}) '
                        'exited 0 but {} {} (events: {})'.format(
                            k, v, i, kind, role(path), bad,
                            'still describe the old project' if stale
                            else 'differ from the uninterrupted run',
                            [(e[1], role(e[2])) for e in events]), case)
                    break
            if pair['edit'] == 'reconfigure' and 'find' in pair['features']:
                # the same crash followed by the lazy regeneration the build
                # file would run: it may only be skipped when the files
                # already are what the uninterrupted run writes
                restore(saved, bld)
                attempt(backend, bld, env, fault='{}:{}'.format(i, v),
                        how=first, src=src)
                lz = attempt(backend, bld, env, how='lazy', src=src)
                now = declared_outputs(bld, backend)
                bad = [fn for fn in ref if now.get(fn) != ref[fn]]
                if lz.rc == 0 and bad:
                    first_bf = min([j for (j, k_, p_) in events
                                    if k_ == 'open-w' and
                                    role(p_) == 'buildfile'] or [10 ** 6])
                    window = ('build-file-write' if i >= first_bf
                              else 'before-build-file')
                    rec.fail(
                        'fault/lazy-stale/reconfigure/{}'.format(window),
                        'a re-configuration (--prefix={}) was stopped by '
                        'fault {} at event {} ({} {}); `regenerate --lazy` '
                        'then exits 0 but {} {} (events: {})'.format(
                            NEW_PREFIX, v, i, kind, role(path), bad,
                            'still describe the old configuration'
                            if all(now.get(fn) == before.get(fn)
                                   for fn in bad)
                            else 'differ from the uninterrupted run',
                            [(e[1], role(e[2])) for e in events]), case)
            if probe_rel:
                ok = all(declared_outputs(bld, backend).get(fn) == ref[fn]
                         for fn in ref)
                if ok:
                    add_probe()
                    ap = attempt(backend, bld, env, how=later, src=src)
                    now = declared_outputs(bld, backend)
                    remove_probe()
                    if ap.rc == 0 and now != ref_probe:
                        rec.fail(
                            'fault/stale-after-recovery/{}/after-{}:{}'
                            .format(pair['edit'], kind, role(path)),
                            'after fault {} at event {} ({} {}) the build '
                            'files were brought up to date, but a file added '
                            'afterwards ({}) is not picked up: exit 0 and {} '
                            'differ from the uninterrupted history'.format(
                                v, i, kind, role(path), probe_rel,
                                [fn for fn in ref_probe
                                 if now.get(fn) != ref_probe[fn]]), case)
        rec.notes['events:{}:{}:{}'.format(
            backend, '+'.join(pair['features']), pair['edit'])] = [
                [k, role(p)] for (_, k, p) in events]
        return len(points)


def _run(rec, seed, budget, shard, nshards, pairs):
    total = 0
    for pair in pairs:
        total += enumerate_pair(rec, pair, shard, nshards)
    rec.exhaustive = True


def tasks(tier):
    pairs = all_pairs()
    if tier == 'quick':
        try:
            seed = int(os.environ.get('VERIF_SEED') or '1')
        except ValueError:
            seed = 1
        # a seed-chosen subset, each enumerated completely; the
        # find/add_match pairs (where the persisted cache matters) always in
        core = [p for p in pairs if p['edit'] in ('add_match', 'semantic') +
                SCRIPT_FAILS and p['features'] == ['find', 'pkgconfig']]
        core += [p for p in pairs if p['edit'] == 'add_pattern' and
                 p['features'] == ['find'] and
                 p['backend'] == ('ninja' if seed % 2 else 'make')]
        core += [p for p in pairs if p['edit'] == 'reconfigure' and
                 p['features'] == ['find', 'pkgconfig'] and
                 p['backend'] == ('make' if seed % 2 else 'ninja')]
        rest = [p for p in pairs if p not in core]
        k = (seed * 7) % len(rest)
        chosen = core + [rest[k]]
    else:
        chosen = pairs
    return [Task('enumerate', _run, quick=len(chosen), thorough=len(chosen),
                 pairs=chosen)]


def replay(task, case, rec):
    pair = {'features': case['features'], 'edit': case['edit'],
            'backend': case['backend']}
    only = ((case['kind'], role(case['path']), case['variant'])
            if 'kind' in case else None)
    enumerate_pair(rec, pair, 0, 1, only=only)
