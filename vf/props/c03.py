"""C03 — Generated dependency graph equals the graph the build script
describes.  Generated DAGs (vf/graph.py) are configured for Make and for the
reference Ninja, built with the recording stub toolchain, and the set of steps
each build executes is compared with the reference model."""
import os

from ..runner import Task, Violation, HarnessError, run_hypothesis
from .. import graph, sandbox

ID = 'C03'
LEVEL = 'exploration'
TECHNIQUE = ('property-based testing (Hypothesis): model-based comparison of '
             'the set of steps re-executed by make / reference ninja after '
             'touching single files of generated DAG projects (stub '
             'toolchain)')
RULE = ('Generated DAGs of 2-9 steps (object files shared between targets, '
        'executables, static/shared libraries with libs, build_steps with 1-3 '
        'outputs incl. generated sources, generated headers passed through '
        'includes=, a precompiled header given by name, always_outdated, '
        'copy_file as copy / symlink / hardlink, alias, command, default/'
        'install/test declarations incl. tests handed to (nested) test '
        'drivers, sources in a '
        'sub-directory, binaries in bin/) x {make, ninja}; per DAG: fresh '
        'build, no-op rebuild, one build after touching each source, header, '
        'data file and intermediate (<= 10), and each alias/command/tests '
        'target from a cleaned tree.  Non-trivial: a file with >= 2 '
        'consumers, a multi-output step or depth >= 3; distinct = backend + '
        'canonical shape of the DAG.')
LEVEL_TEXT = ('Generated-input search against a reference model: the '
              'dependency DAG the generator drew decides which steps must '
              '(and may) run in every experiment; both inclusions are '
              'checked, each step at most once per build.')
LEVEL_NOTE = ('Trusted: recording stub toolchain, GNU Make 4.3, the reference '
              'Ninja evaluator (not ninja itself); header dependencies '
              'discovered by a real compiler are C07\'s subject.')
ASSUMPTIONS = [
    'whether a static library is re-archived when one of its libs= '
    'dependencies changes is left open (the archive does not contain them)',
]
TRUSTED_BASE = ['tools/src/rec.c', 'tools/refninja', 'GNU Make 4.3']


def nontrivial(model, g):
    consumers = {}
    for m in g:
        for f in m['inputs']:
            consumers[f] = consumers.get(f, 0) + 1
    multi = any(len(m['outputs']) > 1 for m in g)
    prod = graph.producers(g)

    def depth(f, seen=()):
        m = prod.get(f)
        if m is None or m['key'] in seen:
            return 0
        return 1 + max([depth(i, seen + (m['key'],)) for i in m['inputs']] or
                       [0])
    deep = max([depth(o) for m in g for o in m['outputs']] or [0])
    return any(c >= 2 for c in consumers.values()) or multi or deep >= 3


def set_mtime(path, ns):
    os.utime(path, ns=(ns, ns))


def build(backend, bld, env, tmp, targets, n):
    log = os.path.join(tmp, 'log.{}'.format(n))
    e = dict(env, VF_LOG=log)
    r = sandbox.run_backend(backend, bld, e, targets)
    return r, graph.executed_keys(sandbox.read_log(log))


def check_exec(what, executed, must, may, case, detail=''):
    dup = {k for k in executed if executed.count(k) > 1}
    if dup:
        raise Violation('graph/' + what + '/ran-twice', 'steps {} ran more '
                        'than once in one build{}'.format(sorted(dup), detail),
                        case)
    ex = set(executed)
    missing = must - ex
    extra = ex - may
    if missing:
        raise Violation('graph/' + what + '/not-rebuilt', 'steps {} did not '
                        'run; executed {}{}'.format(sorted(missing),
                                                    sorted(ex), detail), case)
    if extra:
        raise Violation('graph/' + what + '/spurious', 'steps {} ran but '
                        'nothing they consume changed; expected {}{}'.format(
                            sorted(extra), sorted(must), detail), case)


def run_keys(steps):
    return {m['key'] for m in steps if m['runs']}


def prop_graph(rec):
    def prop(case):
        model, backend = case['model'], case['backend']
        g = graph.reference_graph(model)
        goals = graph.default_goals(model, g)
        need_must = graph.closure(g, goals, optional=False)
        need_may = graph.closure(g, goals, optional=True)
        labs = {backend}
        for s in model['steps']:
            labs.add('kind:' + s['kind'])
        if model['default']:
            labs.add('explicit-default')
        if model['tests']:
            labs.add('has-test')
        if model.get('driver_tests'):
            labs.add('has-driver-test')
        if any(s.get('hdrs') for s in model['steps']):
            labs.add('generated-header-include')
        for s in model['steps']:
            if s.get('mode', 'copy') != 'copy':
                labs.add('copy-' + s['mode'])
        if any(s.get('pchname') for s in model['steps']):
            labs.add('pch-by-name')
        if any(m['always'] and not m['phony'] for m in g):
            labs.add('always-outdated')
        rec.case(labs, nontrivial=([backend, graph.canonical(model)]
                                   if nontrivial(model, g) else None),
                 sample=case)
        with sandbox.scratch('c03') as tmp:
            src = os.path.join(tmp, 'src')
            bld = os.path.join(tmp, 'bld')
            graph.render(model, src)
            env = sandbox.base_env(os.path.join(tmp, 'home'), stub=True,
                                   extra={'CC': 'cc'})
            r = sandbox.configure(src, bld, env, backend=backend,
                                  extra=['--enable-shared',
                                         '--enable-static'])
            if model.get('clash'):
                if r.rc == 0:
                    raise Violation(
                        'graph/two-producers-accepted', 'the script declares '
                        'a {} producing the file an earlier step produces, '
                        'but configuration succeeded: two rules for one '
                        'name'.format(model['clash'][1]), case)
                rec.classes['name-clash-rejected'] += 1
                return
            if r.rc != 0:
                raise Violation('graph/configure-failed', 'a valid script '
                                'was rejected: ' + r.err.strip()[-800:], case)
            after_configure = set(sandbox.snapshot(bld))
            clock = sandbox.Clock(tmp)
            n = [0]

            def do_build(targets):
                n[0] += 1
                clock.tick(tmp)
                r, ex = build(backend, bld, env, tmp, targets, n[0])
                if r.rc == 2 and backend == 'ninja' and \
                        'refninja: unsupported' in r.err:
                    raise HarnessError('reference ninja: ' + r.err[-500:])
                return r, ex

            # (a) fresh default build: the tool started without a target
            r, ex = do_build([])
            if r.rc != 0:
                raise Violation('graph/fresh/build-failed', 'default build '
                                'failed: {} {}'.format(r.err.strip()[-600:],
                                                       r.out.strip()[-300:]),
                                case)
            check_exec('fresh', ex, run_keys(need_must), run_keys(need_may),
                       case)
            may_out = {o for m in need_may for o in m['outputs']}
            for m in g:
                for o in m['outputs']:
                    if o.startswith(graph.B) and o not in may_out and \
                            os.path.exists(os.path.join(bld, o[2:])):
                        raise Violation('graph/fresh/outside-default',
                                        '{} was built although it is not in '
                                        'the default set'.format(o[2:]), case)
            for m in need_must:
                for o in m['outputs']:
                    if o.startswith(graph.B) and not os.path.exists(
                            os.path.join(bld, o[2:])):
                        raise Violation('graph/fresh/output-missing', '{} '
                                        'does not exist after the default '
                                        'build'.format(o[2:]), case)
            # (b) immediate rebuild
            r, ex = do_build(['all'])
            if r.rc != 0:
                raise Violation('graph/noop/build-failed',
                                r.err.strip()[-600:], case)
            check_exec('noop', ex,
                       graph.dirty_after_touch(need_must, None) &
                       run_keys(need_must),
                       graph.dirty_after_touch(need_may, None, may=True) &
                       run_keys(need_may), case)
            if backend == 'make' and not any(m['always'] for m in need_may):
                q = sandbox.run_make(bld, env, ['-q', 'all'])
                if q.rc != 0:
                    raise Violation('graph/noop/make-q', '`make -q` reports '
                                    'work to do right after a build (exit '
                                    '{}) {}'.format(q.rc, q.err[-300:]), case)
            # (c) touch experiments
            files = []
            for m in need_may:
                for f in sorted(m['inputs'] | set(m['outputs'])):
                    if f not in files and not f.startswith('P:'):
                        files.append(f)
            files.sort()
            prod = graph.producers(g)
            for f in files[:case.get('max_touch', 10)]:
                if prod.get(f, {}).get('transparent'):
                    continue       # touching a link touches its target
                path = os.path.join(src if f.startswith(graph.S) else bld,
                                    f[2:])
                if not os.path.exists(path):
                    continue
                t = clock.tick(tmp)
                # source files are alternately touched in place and replaced
                # by a new file (what editors and tools that write a
                # temporary file and rename it do)
                replaced = f.startswith(graph.S) and (
                    files.index(f) % 2 == 1 or any(
                        m.get('link') == 'hardlink' and f in m['inputs']
                        for m in need_may))
                if replaced:
                    with open(path, 'rb') as fh:
                        data = fh.read()
                    sandbox.write_file(path + '.vfnew',
                                       data.decode() + '/* edited */\n')
                    os.replace(path + '.vfnew', path)
                set_mtime(path, t)
                r, ex = do_build(['all'])
                if r.rc != 0:
                    raise Violation('graph/touch/build-failed', 'after '
                                    'touching {}: {}'.format(
                                        f, r.err.strip()[-600:]), case)
                must = graph.dirty_after_touch(need_must, f,
                                               replaced=replaced) & \
                    run_keys(need_must)
                may = graph.dirty_after_touch(need_may, f, may=True) & \
                    run_keys(need_may)
                if backend == 'ninja' and f.endswith(('.o', '.gch')):
                    # Ninja itself re-runs a deps=gcc edge whose output is
                    # newer than its recorded dependency information
                    may = may | {m['key'] for m in need_may
                                 if f in m['outputs']}
                check_exec('touch', ex, must, may, case,
                           ' (after {} {})'.format(
                               'replacing' if replaced else 'touching', f))
            # (c2) clean removes everything the builds created, and the next
            # build makes all of it again
            if case.get('clean', True):
                n[0] += 1
                clock.tick(tmp)
                c = sandbox.run_backend(backend, bld, env, ['clean'])
                if c.rc != 0:
                    raise Violation('graph/clean/failed',
                                    (c.err + c.out).strip()[-500:], case)
                left = sorted(
                    rel for rel in set(sandbox.snapshot(bld)) - after_configure
                    if not os.path.isdir(os.path.join(bld, rel)) and
                    not rel.endswith('.dir') and
                    not rel.startswith(('.ninja', '.refninja')))
                if left:
                    raise Violation('graph/clean/leftovers', 'clean left {}'
                                    .format(left[:10]), case)
                r, ex = do_build(['all'])
                if r.rc != 0:
                    raise Violation('graph/clean/rebuild-failed',
                                    r.err.strip()[-600:], case)
                check_exec('after-clean', ex, run_keys(need_must),
                           run_keys(need_may), case, ' (build after clean)')
            # (d) named targets from a cleaned tree
            named = [m for m in g if m['phony']][:3]
            extra_targets = [(m['outputs'][0][2:], [m['outputs'][0]])
                             for m in named]
            if graph.all_tests(model):
                byid = graph.step_by_id(model)
                extra_targets.append(('tests', [
                    graph.B + graph.out_name(model, byid[i])
                    for i in graph.all_tests(model)]))
            for tname, tgoals in extra_targets:
                for rel in sorted(set(sandbox.snapshot(bld)) -
                                  after_configure, reverse=True):
                    p = os.path.join(bld, rel)
                    if os.path.isdir(p) and not os.path.islink(p):
                        try:
                            os.rmdir(p)
                        except OSError:
                            pass
                    else:
                        os.unlink(p)
                r, ex = do_build([tname])
                if r.rc != 0:
                    raise Violation('graph/target/build-failed', 'target {}: '
                                    '{}'.format(tname, r.err.strip()[-600:]),
                                    case)
                check_exec('target', ex,
                           run_keys(graph.closure(g, tgoals, False)),
                           run_keys(graph.closure(g, tgoals, True)), case,
                           ' (target {})'.format(tname))
    return prop


def cases(backend):
    from hypothesis import strategies as st
    return st.fixed_dictionaries({
        'model': graph.projects(allow_clash=True),
        'backend': st.just(backend),
    })


def _run(rec, seed, budget, shard, nshards, backend):
    run_hypothesis(rec, cases(backend), prop_graph(rec), budget, seed,
                   shrink=(os.environ.get('VERIF_TIER') == 'thorough'))


def tasks(tier):
    return [Task('graph-make', _run, quick=16 * 5, thorough=16 * 120,
                 backend='make'),
            Task('graph-ninja', _run, quick=16 * 5, thorough=16 * 120,
                 backend='ninja')]


def replay(task, case, rec):
    prop_graph(rec)(case)
