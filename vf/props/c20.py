"""C20 — Windows command lines and MSBuild solutions are well-formed and stable.

(A) in-process: wshell.join / quote / the Ninja writer with the Windows shell
    against an independent implementation of the Microsoft C runtime argument
    rules, and split∘join = id.
(B) stateful: histories of configure/regenerate with --backend=msbuild; the
    .sln is parsed with a strict line grammar, every .proj with an XML parser.
"""
import os
import re
import xml.etree.ElementTree as ET

from hypothesis import strategies as st
from hypothesis.stateful import (RuleBasedStateMachine, rule, precondition,
                                 initialize)

from ..runner import (Task, Violation, HarnessError, run_hypothesis,
                      run_machine)
from .. import sandbox

ID = 'C20'
LEVEL = 'exploration'
TECHNIQUE = ('property-based testing (Hypothesis): round-trip through a '
             'reference MSVCRT argv parser; stateful configure/regenerate '
             'histories for MSBuild GUID stability')
RULE = ('(A) argument lists (0-6 args, 0-12 chars) over printable characters '
        'with weight on space, tab, double quote and runs of 0-5 backslashes '
        '(cmd.exe metacharacters & < > | ^ % excluded as documented); a case '
        'is non-trivial when some argument contains a double quote, a '
        'whitespace character or a backslash directly before a quote or at '
        'the end; distinct = multiset of per-argument abstractions (char '
        'classes with backslash-run lengths).  (B) histories of 2-6 '
        'configure/regenerate runs of the msbuild backend over scripts whose '
        'steps (command, build_step with one or two outputs, alias, copy_file '
        'with dependencies, some '
        'of them explicit defaults) are added, kept, renamed and removed; non-trivial when a project '
        'survives a run in which another project was added or removed; '
        'distinct = abstracted operation sequence.')
LEVEL_TEXT = ('Generated-input search with explicit oracles: a reference '
              'parser written from the documented Microsoft C runtime rules '
              '(2n / 2n+1 backslashes, "" inside quotes) and an invariant '
              'over configure/regenerate histories.')
LEVEL_NOTE = ('Trusted: the reference MSVCRT parser (self-tested on the '
              'examples of Microsoft\'s "Parsing C command-line arguments"); '
              'no MSBuild/Visual Studio is installed, so "well-formed" is '
              'structural (.sln line grammar, XML parse, GUID relations).')
ASSUMPTIONS = [
    'MSVCRT (2008+) argument rules as implemented in vf/props/c20.py '
    'msvcrt_parse',
    'MSBuild itself is absent: solutions are checked structurally',
]


# --------------------------------------------------------------------------
# reference: Microsoft C runtime argument parsing (ucrt parse_cmdline, for
# the arguments after argv[0])

def msvcrt_parse(line):
    """Returns (args, used_double_quote_rule)."""
    args = []
    i, n = 0, len(line)
    dq = False
    while True:
        while i < n and line[i] in ' \t':
            i += 1
        if i >= n:
            break
        cur = []
        in_quotes = False
        while True:
            copy = True
            slashes = 0
            while i < n and line[i] == '\\':
                i += 1
                slashes += 1
            if i < n and line[i] == '"':
                if slashes % 2 == 0:
                    if in_quotes and i + 1 < n and line[i + 1] == '"':
                        i += 1
                        dq = True
                    else:
                        copy = False
                        in_quotes = not in_quotes
                slashes //= 2
            cur.append('\\' * slashes)
            if i >= n or (not in_quotes and line[i] in ' \t'):
                break
            if copy:
                cur.append(line[i])
            i += 1
        args.append(''.join(cur))
    return args, dq


def selftest():
    table = [
        ('"abc" d e', ['abc', 'd', 'e']),
        ('a\\\\b d"e f"g h', ['a\\\\b', 'de fg', 'h']),
        ('a\\\\\\"b c d', ['a\\"b', 'c', 'd']),
        ('a\\\\\\\\"b c" d e', ['a\\\\b c', 'd', 'e']),
        ('a"b"" c d', ['ab" c d']),
        ('""', ['']),
        ('a "" b', ['a', '', 'b']),
        ('"a b"', ['a b']),
        ('\\\\', ['\\\\']),
        ('"\\\\"', ['\\']),
        ('"a\\\\\\"', ['a\\"']),
    ]
    for line, exp in table:
        got, _ = msvcrt_parse(line)
        if got != exp:
            raise HarnessError('msvcrt reference wrong on {!r}: {!r}'.format(
                line, got))


# --------------------------------------------------------------------------
# (A) strategies

_plain = st.sampled_from(list('abcXYZ019-_./:=+,@!~#$()[]{};\'*?') +
                         ['é', '日', 'ß', '€', '😀'])
_piece = st.one_of(
    _plain, _plain,
    st.sampled_from([' ', '\t', '"', ' ', '"']),
    st.integers(1, 5).map(lambda k: '\\' * k),
    st.integers(0, 4).map(lambda k: '\\' * k + '"'),
)


@st.composite
def win_args(draw):
    pieces = draw(st.lists(_piece, min_size=0, max_size=8))
    s = ''.join(pieces)
    if draw(st.integers(0, 5)) == 0:
        s += '\\' * draw(st.integers(1, 4))
    return s


arg_lists = st.lists(win_args(), min_size=0, max_size=6)


def abstract_arg(a):
    out = []
    for m in re.finditer(r'\\+|"|[ \t]|[^\\" \t]+', a):
        t = m.group(0)
        if t[0] == '\\':
            out.append('b{}'.format(min(len(t), 6)))
        elif t == '"':
            out.append('q')
        elif t in ' \t':
            out.append('s')
        else:
            out.append('w')
    return ''.join(out)


def arg_interesting(a):
    return bool(re.search(r'["\s]|\\$|\\"', a)) or a == ''


def arg_labels(args):
    labs = set()
    for a in args:
        if a == '':
            labs.add('empty-arg')
        if '"' in a:
            labs.add('quote')
        if re.search(r'\s', a):
            labs.add('space')
        if re.search(r'\\+"', a):
            labs.add('backslash-before-quote')
        if re.search(r'\\$', a):
            labs.add('trailing-backslash')
        if re.search(r'\\\\\\+("|$)', a):
            labs.add('backslash-run>=3-before-quote-or-end')
    return labs


def _nt(kind, args):
    if any(arg_interesting(a) for a in args):
        return [kind, sorted(abstract_arg(a) for a in args)]
    return None


def prop_join(rec):
    from bfg9000.shell import windows as wshell

    def prop(args):
        rec.case(arg_labels(args), nontrivial=_nt('join', args), sample=args)
        line = wshell.join(args)
        got, _ = msvcrt_parse(line)
        if got != args:
            raise Violation('join/msvcrt', 'join({!r}) = {!r} parses under '
                            'the MSVCRT rules to {!r}'.format(args, line, got),
                            args)
        back = wshell.split(line)
        if back != args:
            raise Violation('join/split', 'split(join({!r})) = {!r} (line '
                            '{!r})'.format(args, back, line), args)
        for a in args:
            for fn in (wshell.quote, wshell.force_quote):
                q = fn(a)
                g, _ = msvcrt_parse(q)
                if g != [a]:
                    raise Violation('quote/msvcrt', '{}({!r}) = {!r} parses '
                                    'to {!r}'.format(fn.__name__, a, q, g),
                                    args)
                if wshell.split(q) != [a]:
                    raise Violation('quote/split', 'split({}({!r})) = {!r}'
                                    .format(fn.__name__, a, wshell.split(q)),
                                    args)
    return prop


def prop_jbos(rec):
    from bfg9000.shell import windows as wshell
    from bfg9000.safe_str import jbos, shell_literal

    def prop(case):
        args = case['bits']
        rec.case(arg_labels([b for b in args]),
                 nontrivial=_nt('jbos', args), sample=case)
        bits = []
        for i, b in enumerate(args):
            if i:
                bits.append(shell_literal(case['lit']))
            bits.append(b)
        j = jbos(*bits)
        exp = case['lit'].join(args)
        q = wshell.quote(j)
        got, _ = msvcrt_parse(q)
        want = [exp] if (exp != '' or q != '') else []
        if got != want:
            raise Violation('jbos/msvcrt', 'quote({!r}) = {!r} parses to {!r},'
                            ' expected {!r}'.format(j, q, got, want), case)
    return prop


class _WinPlatform:
    family = 'windows'


def _ninja_unescape(text, variables):
    out = []
    i = 0
    while i < len(text):
        c = text[i]
        if c != '$':
            out.append(c)
            i += 1
            continue
        nxt = text[i + 1:i + 2]
        if nxt == '$':
            out.append('$')
            i += 2
        elif nxt in (' ', ':'):
            out.append(nxt)
            i += 2
        elif nxt == '{':
            j = text.index('}', i)
            out.append(variables[text[i + 2:j]])
            i = j + 1
        else:
            raise Violation('ninja/bad-escape',
                            'stray $ in {!r} at {}'.format(text, i))
    return ''.join(out)


SRCDIR_VALUE = 'S:\\src dir'


def prop_ninja(rec):
    import io
    from bfg9000.shell import windows as wshell
    from bfg9000.shell.list import shell_list
    from bfg9000.safe_str import shell_literal
    from bfg9000.backends.ninja import syntax as nsyntax
    from bfg9000.platforms.windows import WindowsPath
    from bfg9000.platforms.basepath import Root

    def prop(case):
        cmds = case['cmds']
        flat = [a['v'] for c in cmds for a in c]
        rec.case(arg_labels(flat) | ({'wrapped'} if case['wrap'] else set()) |
                 ({'path-arg'} if any(a['k'] != 's' for c in cmds for a in c)
                  else set()),
                 nontrivial=_nt('ninja', flat), sample=case)
        path_vars = {Root.srcdir: nsyntax.Variable('srcdir'),
                     Root.builddir: None}
        out = nsyntax.Writer(io.StringIO(), path_vars, shell=wshell)
        expected = []
        line = []
        for ci, c in enumerate(cmds):
            if ci:
                line.append(shell_literal('&&'))
            exp = []
            for a in c:
                if a['k'] == 's':
                    line.append(a['v'])
                    exp.append(a['v'])
                else:
                    root = Root.srcdir if a['k'] == 'src' else Root.builddir
                    try:
                        p = WindowsPath(a['v'], root)
                    except ValueError:
                        line.append('rej')
                        exp.append('rej')
                        continue
                    line.append(p)
                    suffix = p.suffix.replace('/', '\\')
                    if a['k'] == 'src':
                        exp.append(SRCDIR_VALUE + ('\\' + suffix if suffix
                                                   else ''))
                    else:
                        # builddir paths in a command are written with an
                        # explicit ".\\" when they have no separator
                        exp.append(('.\\' + suffix if '\\' not in suffix
                                    else suffix) if suffix else '.')
            expected.append(exp)
        multi = len(cmds) > 1
        thing = shell_list(line) if multi or case['wrap'] else line
        if case.get('tool'):
            # the command starts with a tool object, expanded to its command
            # the way the build-file writers do it
            from bfg9000.tools.common import Command
            tool = Command(None, command=('vftool', ['vftool.exe'], True))
            thing = type(thing)([tool] + list(thing))
            thing = Command.convert_args(thing, lambda t: t.command)
            expected[0] = ['vftool.exe'] + expected[0]
        old = nsyntax.platform_info
        nsyntax.platform_info = lambda: _WinPlatform
        try:
            out.write_shell(thing, nsyntax.Syntax.shell, can_wrap=True)
        finally:
            nsyntax.platform_info = old
        text = out.stream.getvalue()
        cmdline = _ninja_unescape(text, {'srcdir': SRCDIR_VALUE})
        if multi or case['wrap']:       # (declared as a shell list)
            pre, post = 'cmd /s /c "', '"'
            if not (cmdline.startswith(pre) and cmdline.endswith(post)):
                raise Violation('ninja/wrap', 'shell list not wrapped with '
                                'cmd /s /c: {!r}'.format(cmdline), case)
            cmdline = cmdline[len(pre):len(cmdline) - len(post)]
        got, _ = msvcrt_parse(cmdline)
        want = []
        for i, e in enumerate(expected):
            if i:
                want.append('&&')
            want.extend(e)
        if got != want:
            raise Violation('ninja/msvcrt', 'Ninja text {!r} -> command line '
                            '{!r} parses to {!r}, expected {!r}'.format(
                                text, cmdline, got, want), case)
    return prop


@st.composite
def ninja_cases(draw):
    def arg():
        k = draw(st.sampled_from(['s', 's', 's', 'src', 'bld']))
        if k == 's':
            v = draw(win_args())
            if v == '&&':
                v = 'x'
            return {'k': k, 'v': v}
        comps = draw(st.lists(st.sampled_from(
            ['a', 'b c', 'x.y', 'd$e', 'f g', '..', 'h']), min_size=0,
            max_size=3))
        return {'k': k, 'v': '/'.join(comps)}
    ncmd = draw(st.integers(1, 3))
    cmds = [[arg() for _ in range(draw(st.integers(1, 4)))]
            for _ in range(ncmd)]
    return {'cmds': cmds, 'wrap': draw(st.booleans()),
            'tool': draw(st.booleans())}


jbos_cases = st.fixed_dictionaries({
    'bits': st.lists(win_args(), min_size=1, max_size=3),
    'lit': st.sampled_from(['X', '=', '/', 'lit', '-']),
})

A_PROPS = {
    'join': (prop_join, arg_lists),
    'jbos': (prop_jbos, jbos_cases),
    'ninja_windows': (prop_ninja, ninja_cases()),
}


def _run_a(rec, seed, budget, shard, nshards, group):
    pf, strat = A_PROPS[group]
    run_hypothesis(rec, strat, pf(rec), budget, seed)


# --------------------------------------------------------------------------
# (B) MSBuild histories

GUID_RE = re.compile(r'^\{[0-9A-F]{8}-[0-9A-F]{4}-[0-9A-F]{4}-[0-9A-F]{4}-'
                     r'[0-9A-F]{12}\}$')
PROJ_RE = re.compile(r'^Project\("(\{[^"]*\})"\) = "([^"]*)", "([^"]*)", '
                     r'"(\{[^"]*\})"$')


def parse_sln(text):
    """Strict line grammar of the subset bfg9000 writes.  Returns
    {'projects': [{name, path, guid, deps}], 'config_guids': [...]}."""
    lines = text.split('\n')
    if lines and lines[-1] == '':
        lines.pop()
    pos = 0

    def bad(msg):
        raise Violation('sln/malformed', '{} at line {}: {!r}'.format(
            msg, pos + 1, lines[pos] if pos < len(lines) else '<eof>'))

    if not lines or not lines[0].startswith(
            'Microsoft Visual Studio Solution File, Format Version '):
        bad('missing header')
    pos = 1
    while pos < len(lines) and (lines[pos].startswith('#') or re.match(
            r'^\w+ = \S+$', lines[pos])):
        pos += 1
    projects = []
    while pos < len(lines) and lines[pos].startswith('Project('):
        m = PROJ_RE.match(lines[pos])
        if not m:
            bad('bad Project line')
        proj = {'type': m.group(1), 'name': m.group(2), 'path': m.group(3),
                'guid': m.group(4), 'deps': []}
        pos += 1
        if pos < len(lines) and lines[pos] == \
                '\tProjectSection(ProjectDependencies) = postProject':
            pos += 1
            while pos < len(lines) and lines[pos] != '\tEndProjectSection':
                m = re.match(r'^\t\t(\{[^}]*\}) = (\{[^}]*\})$', lines[pos])
                if not m or m.group(1) != m.group(2):
                    bad('bad dependency line')
                proj['deps'].append(m.group(1))
                pos += 1
            if pos >= len(lines):
                bad('unterminated ProjectSection')
            pos += 1
        if pos >= len(lines) or lines[pos] != 'EndProject':
            bad('expected EndProject')
        pos += 1
        projects.append(proj)
    if pos >= len(lines) or lines[pos] != 'Global':
        bad('expected Global')
    pos += 1
    config_guids = []
    while pos < len(lines) and lines[pos] != 'EndGlobal':
        m = re.match(r'^\tGlobalSection\((\w+)\) = (\w+)$', lines[pos])
        if not m:
            bad('expected GlobalSection')
        sect = m.group(1)
        pos += 1
        while pos < len(lines) and lines[pos] != '\tEndGlobalSection':
            m = re.match(r'^\t\t(.+?) = (.+)$', lines[pos])
            if not m:
                bad('bad variable line')
            if sect == 'ProjectConfigurationPlatforms':
                config_guids.append(m.group(1).split('.')[0])
            pos += 1
        if pos >= len(lines):
            bad('unterminated GlobalSection')
        pos += 1
    if pos != len(lines) - 1:
        bad('trailing content or missing EndGlobal')
    return {'projects': projects, 'config_guids': config_guids}


NAME_POOL = ['a', 'b', 'c', 'd', 'lib/x', 'lib/y', 'x.y', 'out.txt', 'a b',
             'deep/er/z', 'e', 'f', 'gen.c', 'x', 'y', 'a/a', "q'q", 'p(1)',
             'w&w', 'é']


def render_script(steps, defaults=()):
    lines = []
    for i, s in enumerate(steps):
        deps = '[' + ', '.join('s{}'.format(d) for d in s['deps']) + ']'
        v = 's{}'.format(s['id'])
        if s['kind'] == 'command':
            lines.append('{} = command({!r}, cmd=["echo", {!r}], extra_deps='
                         '{})'.format(v, s['name'], s['arg'], deps))
        elif s['kind'] == 'build_step':
            lines.append('{} = build_step({!r}, cmd=["touch", {!r}], '
                         'extra_deps={})'.format(v, s['name'], s['name'],
                                                 deps))
        elif s['kind'] == 'multi_step':
            # a step with two outputs: still one project
            outs = [s['name'], s['name'] + '.aux']
            lines.append('{} = build_step({!r}, cmd=["touch"] + {!r}, '
                         'extra_deps={})[0]'.format(v, outs, outs, deps))
        elif s['kind'] == 'alias':
            lines.append('{} = alias({!r}, {})'.format(v, s['name'], deps))
        elif s['kind'] == 'copy_file':
            lines.append('{} = copy_file({!r}, {!r}, extra_deps={})'
                         .format(v, s['name'], 'data.in', deps))
    ids = [s['id'] for s in steps]
    dflt = [d for d in defaults if d in ids]
    if dflt:
        lines.append('default({})'.format(', '.join('s{}'.format(d)
                                                    for d in dflt)))
    return '\n'.join(lines) + '\n'


def project_name(s):
    if s['kind'] == 'copy_file':
        return os.path.join('copy_file_tasks', s['name'])
    return s['name']


def check_solution(builddir, slnname, steps, prev_guids, case):
    sln_path = os.path.join(builddir, slnname)
    if not os.path.exists(sln_path):
        raise Violation('sln/missing', 'no solution file written', case)
    with open(sln_path, encoding='utf-8') as f:
        try:
            sln = parse_sln(f.read())
        except Violation as v:
            v.case = case
            raise
    projs = sln['projects']
    guids = [p['guid'] for p in projs]
    for g in guids:
        if not GUID_RE.match(g):
            raise Violation('sln/guid-format', 'bad GUID {!r}'.format(g),
                            case)
    if len(set(guids)) != len(guids):
        raise Violation('sln/guid-duplicate', 'duplicate GUIDs: {!r}'.format(
            sorted(guids)), case)
    want_names = sorted(project_name(s) for s in steps)
    got_names = sorted(p['name'] for p in projs)
    if want_names != got_names:
        raise Violation('sln/projects', 'projects {!r}, script declares {!r}'
                        .format(got_names, want_names), case)
    by_name = {p['name']: p for p in projs}
    by_id = {s['id']: s for s in steps}
    for g in sln['config_guids']:
        if g not in guids:
            raise Violation('sln/config-guid', 'configuration for unknown '
                            'project {}'.format(g), case)
    for s in steps:
        p = by_name[project_name(s)]
        for d in p['deps']:
            if d not in guids:
                raise Violation('sln/dangling-dependency', '{!r} depends on '
                                '{} which is not in the solution'.format(
                                    p['name'], d), case)
        want = sorted(by_name[project_name(by_id[d])]['guid']
                      for d in s['deps'])
        if sorted(p['deps']) != want:
            raise Violation('sln/dependencies', '{!r}: dependencies {!r}, '
                            'script says {!r}'.format(p['name'],
                                                      sorted(p['deps']), want),
                            case)
        ppath = os.path.join(builddir, p['path'].replace('\\', '/'))
        if not os.path.exists(ppath):
            raise Violation('proj/missing', 'project file {!r} missing'.format(
                p['path']), case)
        try:
            tree = ET.parse(ppath)
        except ET.ParseError as e:
            raise Violation('proj/xml', '{!r}: {}'.format(p['path'], e), case)
        ns = '{http://schemas.microsoft.com/developer/msbuild/2003}'
        pg = [e.text for e in tree.getroot().iter(ns + 'ProjectGuid')]
        if pg != [p['guid']]:
            raise Violation('proj/guid', '{!r}: ProjectGuid {!r} != solution '
                            'entry {!r}'.format(p['path'], pg, p['guid']),
                            case)
    now = {p['name']: p['guid'] for p in projs}
    for name, g in prev_guids.items():
        if name in now and now[name] != g:
            raise Violation('sln/guid-unstable', 'project {!r} changed GUID '
                            '{} -> {}'.format(name, g, now[name]), case)
    return now


class MsbuildMachine(RuleBasedStateMachine):
    def __init__(self):
        super().__init__()
        self.tmp = None
        self.steps = []
        self.next_id = 0
        self.history = []
        self.prev = {}
        self.configured = False
        self.runs = 0
        self.survived_change = False
        self.changed_since = False
        self.defaults = []      # ids of the explicit default outputs
        self.removed = []       # steps taken out of the script earlier

    @precondition(lambda self: any(s['kind'] in ('build_step', 'copy_file',
                                                 'multi_step')
                                   for s in self.steps))
    @rule(data=st.data())
    def set_defaults(self, data):
        ids = [s['id'] for s in self.steps
               if s['kind'] in ('build_step', 'copy_file', 'multi_step')]
        n = data.draw(st.integers(0, min(3, len(ids))))
        self.defaults = list(data.draw(st.permutations(ids)))[:n]
        by_id = {s['id']: s['name'] for s in self.steps}
        self.history.append(['set_defaults',
                             [by_id[d] for d in self.defaults]])
        self.changed_since = True

    def _setup(self):
        if self.tmp is None:
            self.ctx = sandbox.scratch('c20')
            self.tmp = self.ctx.__enter__()
            self.src = os.path.join(self.tmp, 'proj')
            self.bld = os.path.join(self.tmp, 'bld')
            os.makedirs(self.src)
            sandbox.write_file(os.path.join(self.src, 'data.in'), 'x\n')
            self.env = sandbox.base_env(self.tmp)

    def teardown(self):
        rec = self._vf_rec
        if self.runs:
            labs = {'runs={}'.format(min(self.runs, 6))}
            ops = [h[0] for h in self.history]
            for o in set(ops):
                labs.add('op:' + o)
            rec.case(labs, nontrivial=(ops if self.survived_change else None),
                     sample=self.history)
        if self.tmp is not None:
            self.ctx.__exit__(None, None, None)
            self.tmp = None

    def _names(self):
        return {s['name'] for s in self.steps}

    @rule(kind=st.sampled_from(['command', 'build_step', 'alias',
                                'copy_file', 'multi_step']),
          name=st.sampled_from(NAME_POOL), deps=st.data(),
          arg=st.sampled_from(['hi', 'a b', 'x"y', '100%', 'c\\']))
    def add(self, kind, name, deps, arg):
        used = self._names() | {project_name(s) for s in self.steps}
        if name in used or any(
                n.startswith(name + '/') or name.startswith(n + '/')
                for n in used):
            return
        ids = [s['id'] for s in self.steps]
        chosen = deps.draw(st.lists(st.sampled_from(ids), unique=True,
                                    max_size=3)) if ids else []
        s = {'id': self.next_id, 'kind': kind, 'name': name,
             'deps': sorted(chosen), 'arg': arg}
        self.next_id += 1
        self.steps.append(s)
        if kind in ('build_step', 'copy_file', 'multi_step') and \
                deps.draw(st.integers(0, 2)) == 0:
            self.defaults.append(s['id'])      # an explicit default
        self.history.append(['add', kind, name, s['deps']])
        self.changed_since = True

    @precondition(lambda self: len(self.steps) > 0)
    @rule(data=st.data())
    def remove(self, data):
        s = data.draw(st.sampled_from(self.steps))
        self.steps.remove(s)
        self.removed.append(s)
        for t in self.steps:
            t['deps'] = [d for d in t['deps'] if d != s['id']]
        self.history.append(['remove', s['name']])
        self.changed_since = True

    @precondition(lambda self: len(self.removed) > 0)
    @rule(data=st.data())
    def add_back(self, data):
        """A step that was removed earlier is declared again, as it was."""
        s = data.draw(st.sampled_from(self.removed))
        used = self._names() | {project_name(t) for t in self.steps}
        if s['name'] in used or any(
                n.startswith(s['name'] + '/') or s['name'].startswith(n + '/')
                for n in used):
            return
        self.removed.remove(s)
        s = dict(s, id=self.next_id, deps=[])
        self.next_id += 1
        self.steps.append(s)
        self.history.append(['add_back', s['kind'], s['name']])
        self.changed_since = True

    @precondition(lambda self: len(self.steps) > 0)
    @rule(data=st.data(), name=st.sampled_from(NAME_POOL))
    def rename(self, data, name):
        used = self._names() | {project_name(s) for s in self.steps}
        if name in used or any(
                n.startswith(name + '/') or name.startswith(n + '/')
                for n in used):
            return
        s = data.draw(st.sampled_from(self.steps))
        self.history.append(['rename', s['name'], name])
        s['name'] = name
        self.changed_since = True

    @precondition(lambda self: len(self.steps) > 1)
    @rule(data=st.data())
    def move_last(self, data):
        # re-declare one step at the end of the script (order change)
        s = data.draw(st.sampled_from(self.steps))
        if any(s['id'] in t['deps'] for t in self.steps):
            return
        self.steps.remove(s)
        self.steps.append(s)
        self.history.append(['move_last', s['name']])

    @precondition(lambda self: len(self.steps) > 0 and self.runs < 6)
    @rule(how=st.sampled_from(['regenerate', 'regenerate', 'configure']))
    def generate(self, how):
        self._setup()
        sandbox.write_file(os.path.join(self.src, 'build.bfg'),
                           render_script(self.steps, self.defaults))
        if not self.configured or how == 'configure':
            r = sandbox.configure(self.src, self.bld, self.env,
                                  backend='msbuild')
            op = 'configure'
        else:
            r = sandbox.run_bfg(['regenerate', self.bld], self.tmp, self.env)
            op = 'regenerate'
        by_id = {s['id']: s['name'] for s in self.steps}
        self.history.append([op, [[s['kind'], s['name'],
                                   [by_id[d] for d in s['deps']], s['arg']]
                                  for s in self.steps],
                             [by_id[d] for d in self.defaults
                              if d in by_id]])
        case = {'history': self.history}
        if r.rc != 0:
            v = Violation('msbuild/' + op + '-failed', '{} exited {}: {}'
                          .format(op, r.rc, r.err[-1500:]), case)
            self._vf_holder['last'] = v
            raise v
        self.configured = True
        self.runs += 1
        try:
            now = check_solution(self.bld, 'proj.sln', self.steps, self.prev,
                                 case)
        except Violation as v:
            self._vf_holder['last'] = v
            raise
        if self.changed_since and set(now) & set(self.prev):
            self.survived_change = True
        self.changed_since = False
        self.prev = now


def core_histories():
    """Always run: a step of every kind disappears from the script for one
    generation and is declared again, with a dependent that stays."""
    out = []
    for kind in ('command', 'build_step', 'alias', 'copy_file', 'multi_step'):
        for again in ('regenerate', 'configure'):
            full = [[kind, 'p1', [], 'hi'], ['command', 'p2', ['p1'], 'hi'],
                    ['alias', 'p3', ['p2'], 'hi']]
            less = [['command', 'p2', [], 'hi'], ['alias', 'p3', ['p2'], 'hi']]
            out.append([['configure', full, []], ['regenerate', less, []],
                        [again, full, []], ['regenerate', full, []]])
    return out


def _run_b(rec, seed, budget, shard, nshards):
    for k, h in enumerate(core_histories()):
        if k % nshards != shard:
            continue
        rec.case({'core-history'}, nontrivial=['core', k], sample=h)
        try:
            replay_history(h, rec)
        except Violation as v:
            rec.fail('core/' + v.key, v.message, {'history': h})
    run_machine(rec, MsbuildMachine, budget, 14, seed)


def replay_history(history, rec):
    """Re-run a recorded history without Hypothesis."""
    with sandbox.scratch('c20r') as tmp:
        src = os.path.join(tmp, 'proj')
        bld = os.path.join(tmp, 'bld')
        os.makedirs(src)
        sandbox.write_file(os.path.join(src, 'data.in'), 'x\n')
        env = sandbox.base_env(tmp)
        prev = {}
        for h in history:
            if h[0] not in ('configure', 'regenerate'):
                continue
            steps = []
            for i, (kind, name, deps, arg) in enumerate(h[1]):
                steps.append({'id': i, 'kind': kind, 'name': name,
                              'deps': [], 'arg': arg, '_d': deps})
            for s in steps:
                dn = s.pop('_d')
                s['deps'] = [j for j, t in enumerate(steps)
                             if t['name'] in dn]
            dnames = h[2] if len(h) > 2 else []
            sandbox.write_file(os.path.join(src, 'build.bfg'), render_script(
                steps, [j for n in dnames for j, t in enumerate(steps)
                        if t['name'] == n]))
            if h[0] == 'configure':
                r = sandbox.configure(src, bld, env, backend='msbuild')
            else:
                r = sandbox.run_bfg(['regenerate', bld], tmp, env)
            if r.rc != 0:
                raise Violation('msbuild/' + h[0] + '-failed', r.err[-1500:],
                                {'history': history})
            prev = check_solution(bld, 'proj.sln', steps, prev,
                                  {'history': history})


def tasks(tier):
    ts = [Task(g, _run_a, quick=16 * 1500, thorough=16 * 40000, group=g)
          for g in A_PROPS]
    ts.append(Task('msbuild_history', _run_b, quick=16 * 6,
                   thorough=16 * 60))
    return ts


def replay(task, case, rec):
    if task in A_PROPS:
        A_PROPS[task][0](rec)(case)
    elif task == 'msbuild_history':
        replay_history(case['history'], rec)
    else:
        raise HarnessError('unknown task ' + task)
