"""C13 — Build files are a deterministic function of project and
configuration.

One generated project is configured several times into the *same absolute
build directory path* (the previous result is moved aside) under different
hash seeds, unrelated environment variables, invocation directories, build
directory spellings and entry points (configure, configure-into, 9k, through
a symlinked working directory with $PWD set).  Primary build files must be
byte-identical, auxiliary files equal as sets of entries."""
import json
import os

from hypothesis import strategies as st

from ..runner import Task, Violation, HarnessError, run_hypothesis
from .. import sandbox

ID = 'C13'
LEVEL = 'exploration'
TECHNIQUE = ('property-based testing (Hypothesis): metamorphic comparison of '
             'build files produced from one project under generated hash '
             'seeds, environments, working directories, build-directory '
             'spellings and entry points')
RULE = ('Generated projects using find_files over 3-5 directories, 2-4 '
        'shared/static libraries with generated names, an installed '
        'executable linking them (implicit run-time dependencies), several '
        'install() calls, pkg_config() with generated requires / '
        'requires_private / conflicts lists, options.bfg, a submodule, tests, '
        'aliases and optionally a toolchain file setting install dirs; 5 '
        'configure runs per case with pairwise different PYTHONHASHSEED '
        'values and 5 different invocation forms, then a forced and a lazy '
        'regeneration, both backends.  Non-trivial: every case (>= 3 hash seeds, >= 2 cwd forms, '
        'a find result of >= 3 entries); distinct = project shape (library '
        'names/kinds, counts) + backend.')
LEVEL_TEXT = ('Generated-input search with a metamorphic oracle: changing '
              'only the invocation context must not change the primary build '
              'files at all (byte comparison) nor the entries of the '
              'auxiliary files.')
LEVEL_NOTE = ('Trusted: nothing beyond the file comparison; "regardless of '
              'time and pid" is sampled by running at different times in '
              'different processes, not controlled.')
ASSUMPTIONS = ['mopack is unusable here: --no-resolve-packages in every run']
LIBNAMES = ['alpha', 'beta', 'gamma', 'delta', 'zeta', 'kappa', 'mu', 'omega',
            'a1', 'b2', 'c3', 'lib_x', 'y', 'z9']
DIRNAMES = ['core', 'util', 'net', 'io', 'gfx', 'db', 'x1', 'x2', 'aa', 'zz']


# (specifiers of one name always merge into a single one: Requires takes one)
TOOLCHAINS = [
    "install_dirs(prefix='/opt/tc', libdir='/opt/tc/lib64')\n"
    "compile_options('-DTC=1', 'c')\n",
    "environ['CPPFLAGS'] = environ.get('CPPFLAGS', '') + ' -DTC2'\n"
    "install_dirs(bindir='/opt/tc bin')\nlink_options('-Wl,-O1')\n",
]
REQ_POOL = [('dep', '>=1.0'), ('dep', '>1.0'), ('dep', '>=0.5'),
            ('other', ''), ('zed', '<=2.1'), ('zed', '<2.1'), ('zed', '<3'),
            ('kap', '!=1.1'), ('mu', '==2.5'), ('mu', '>=2.5')]
CONFLICT_POOL = [('foo', '>=1.0,<2.0'), ('bar', '<3,>1'), ('baz', '>1,!=1.5'),
                 ('qux', '<2'), ('foo', '!=1.1,!=1.2,<5'), ('bar', '>=2,<=9')]


@st.composite
def cases(draw):
    nlib = draw(st.integers(2, 4))
    libs = draw(st.lists(st.sampled_from(LIBNAMES), min_size=nlib,
                         max_size=nlib, unique=True))
    kinds = [draw(st.sampled_from(['shared_library', 'shared_library',
                                   'library', 'static_library']))
             for _ in libs]
    ndir = draw(st.integers(3, 5))
    dirs = draw(st.lists(st.sampled_from(DIRNAMES), min_size=ndir,
                         max_size=ndir, unique=True))
    seeds = draw(st.lists(st.integers(0, 4000000000), min_size=5, max_size=5,
                          unique=True))
    return {'libs': libs, 'kinds': kinds, 'dirs': dirs,
            'files_per_dir': draw(st.integers(1, 3)),
            'chain': draw(st.booleans()),
            'explicit_installs': draw(st.integers(0, len(libs))),
            'backend': draw(st.sampled_from(['make', 'ninja'])),
            'mode': draw(st.sampled_from([['--enable-shared',
                                           '--enable-static'], []])),
            'seeds': seeds,
            # the scripts themselves listed as files to distribute
            'dist_bootstrap': draw(st.booleans()),
            # source files whose names look like references to variables of
            # the ambient environment
            'dollar_names': draw(st.booleans()),
            'toolchain': draw(st.sampled_from([None, None, TOOLCHAINS[0],
                                               TOOLCHAINS[1]])),
            # requirement lists of the generated .pc file: one name may be
            # constrained from two places, conflicts may keep two bounds
            'requires': draw(st.lists(st.sampled_from(REQ_POOL), max_size=3,
                                      unique_by=lambda r: r[0])),
            'requires_private': draw(st.lists(st.sampled_from(REQ_POOL),
                                              max_size=3,
                                              unique_by=lambda r: r[0])),
            'conflicts': draw(st.lists(st.sampled_from(CONFLICT_POOL),
                                       max_size=3, unique_by=lambda r: r[0])),
            'junk': draw(st.dictionaries(
                st.sampled_from(['ZZ_UNRELATED', 'A_VAR', 'COLUMNS',
                                 'TERM', 'XDG_FOO', 'CLICOLOR',
                                 'CLICOLOR_FORCE', 'NO_COLOR']),
                st.sampled_from(['1', 'x y', 'é', '0']), max_size=3))}


def render(case, src):
    L = ["project('c13', version='1.2')"]
    L.append("srcs = find_files('tree/**/*.c', extra='*.txt')")
    L.append("hdrs = find_paths('tree/**/*.h')")
    for d in case['dirs']:
        for i in range(case['files_per_dir']):
            sandbox.write_file(os.path.join(src, 'tree', d,
                                            'f{}_{}.c'.format(d, i)),
                               'int f_{}_{}(void){{return 0;}}\n'.format(d, i))
        sandbox.write_file(os.path.join(src, 'tree', d, 'h_' + d + '.h'), '')
        sandbox.write_file(os.path.join(src, 'tree', d, 'notes.txt'), 'n\n')
    prev = None
    for name, kind in zip(case['libs'], case['kinds']):
        sandbox.write_file(os.path.join(src, 'lib_' + name + '.c'),
                           'int {}(void){{return 1;}}\n'.format(name))
        dep = ', libs=[l_{}]'.format(prev) if (case['chain'] and prev) else ''
        L.append("l_{0} = {1}({0!r}, ['lib_{0}.c']{2})".format(name, kind,
                                                               dep))
        prev = name
    sandbox.write_file(os.path.join(src, 'main.c'),
                       'int main(void){return 0;}\n')
    dollar = []
    if case.get('dollar_names'):
        dollar = ['sym$A_VAR.c', 'x${ZZ_UNRELATED}y.c', '$TERM/t.c']
        for n in dollar:
            sandbox.write_file(os.path.join(src, n), '/* {} */\n'.format(n))
    L.append("prog = executable('prog', ['main.c'] + {!r} + srcs, "
             "libs=[{}])".format(
                 dollar, ', '.join('l_' + n for n in case['libs'])))
    for n in case['libs'][:case['explicit_installs']]:
        L.append('install(l_{})'.format(n))
    L.append('install(prog)')
    L.append("inc = header_directory('tree', include='**/*.h')")
    L.append('install(inc)')
    def reqs(key):
        return [n if not sp else (n, sp) for n, sp in case.get(key, [])]
    L.append("pkg_config('c13pkg', version='1.2', includes=[inc], "
             "libs=[l_{}], requires={!r}, requires_private={!r}, "
             "conflicts={!r})".format(case['libs'][0], reqs('requires'),
                                      reqs('requires_private'),
                                      reqs('conflicts')))
    L.append("t = executable('t1', ['t1.c'], libs=[l_{}])".format(
        case['libs'][-1]))
    sandbox.write_file(os.path.join(src, 't1.c'),
                       'int main(void){return 0;}\n')
    L.append('test(t)')
    L.append("alias('everything', [prog, t])")
    L.append("submodule('sub')")
    if case.get('dist_bootstrap'):
        L.append("extra_dist(files=['build.bfg', 'options.bfg', 'main.c', "
                 "'t1.c'])")
    L.append("import json")
    L.append("with open(env.builddir.append('argv.json').string(), 'w') as "
             "_f: json.dump(vars(argv), _f, sort_keys=True)")
    sandbox.write_file(os.path.join(src, 'build.bfg'), '\n'.join(L) + '\n')
    sandbox.write_file(os.path.join(src, 'sub', 'build.bfg'),
                       "executable('subprog', find_files('*.c'))\n")
    sandbox.write_file(os.path.join(src, 'sub', 's1.c'),
                       'int main(void){return 0;}\n')
    sandbox.write_file(os.path.join(src, 'sub', 's2.c'),
                       'int s2(void){return 0;}\n')
    sandbox.write_file(os.path.join(src, 'options.bfg'),
                       "argument('flavor', default='plain')\n"
                       "argument('extra', action='enable', default=False)\n")


PRIMARY = ['Makefile', 'build.ninja', 'compile_commands.json', 'argv.json']


def collect(bld):
    out = {}
    for fn in PRIMARY:
        p = os.path.join(bld, fn)
        if os.path.exists(p):
            with open(p, 'rb') as f:
                out[fn] = f.read()
    pc = os.path.join(bld, 'pkgconfig')
    if os.path.isdir(pc):
        for fn in sorted(os.listdir(pc)):
            with open(os.path.join(pc, fn), 'rb') as f:
                out['pkgconfig/' + fn] = f.read()
    aux = {}
    p = os.path.join(bld, '.bfg_find_deps')
    if os.path.exists(p):
        with open(p) as f:
            aux['.bfg_find_deps'] = sorted(f.read().replace('\\\n', ' ')
                                           .split())
    p = os.path.join(bld, '.bfg_find_cache')
    if os.path.exists(p):
        with open(p) as f:
            d = json.load(f)

        def canon(x):
            if isinstance(x, dict):
                return {k: canon(v) for k, v in sorted(x.items())}
            if isinstance(x, list):
                return sorted((canon(i) for i in x),
                              key=lambda v: json.dumps(v, sort_keys=True))
            return x
        aux['.bfg_find_cache'] = canon(d)
    p = os.path.join(bld, '.bfg_environ')
    if os.path.exists(p):
        with open(p) as f:
            d = json.load(f)
        d['data'].pop('variables', None)
        aux['.bfg_environ'] = d
    return out, aux


def prop_determinism(rec):
    def prop(case):
        backend = case['backend']
        rec.case({backend, 'libs={}'.format(len(case['libs'])),
                  'dirs={}'.format(len(case['dirs']))},
                 nontrivial=[backend, case['libs'], case['kinds'],
                             case['dirs'], case['explicit_installs'],
                             case['chain']], sample=case)
        with sandbox.scratch('c13') as tmp:
            tmp = os.path.realpath(tmp)
            top = os.path.join(tmp, 'real', 'top')
            src = os.path.join(top, 'src')
            bld = os.path.join(top, 'bld')
            os.makedirs(src)
            os.symlink(os.path.join(tmp, 'real'), os.path.join(tmp, 'link'))
            render(case, src)
            depdir = os.path.join(tmp, 'deps')
            for n, v in (('dep', '2.0'), ('other', '1.0'), ('zed', '1.0'),
                         ('kap', '2.0'), ('mu', '2.5')):
                sandbox.write_file(
                    os.path.join(depdir, n + '.pc'),
                    'Name: {0}\nDescription: d\nVersion: {1}\nCflags: '
                    '-DHAVE_{0}\nLibs:\n'.format(n, v))
            lsrc = os.path.join(tmp, 'link', 'top', 'src')
            lbld = os.path.join(tmp, 'link', 'top', 'bld')
            opts = ['--backend=' + backend, '--no-resolve-packages',
                    '--prefix=/opt/c13', '--flavor=spicy'] + case['mode']
            if case.get('toolchain'):
                tcf = os.path.join(top, 'tc.bfg')
                sandbox.write_file(tcf, case['toolchain'])
                opts.append('--toolchain=' + tcf)
            bfg = sandbox.BFG
            k9 = os.path.join(sandbox.BFGBIN, '9k')
            runs = [
                ('configure-into/abs/cwd=src', src, {},
                 [bfg, 'configure-into', src, bld] + opts),
                ('configure/cwd=bld/rel-src', bld, {},
                 [bfg, 'configure', '../src'] + opts),
                ('9k/cwd=src/rel-bld', src, {},
                 [k9, '../bld'] + opts),
                ('configure-into/dotdot-trailing-slash/cwd=root', '/', {},
                 [bfg, 'configure-into', src + '/', top + '/x/../bld/']
                 + opts),
                ('configure/symlinked-cwd/PWD', lbld, {'PWD': lbld},
                 [bfg, 'configure', '../src'] + opts),
            ]
            results = []
            for i, (what, cwd, extra_env, argv) in enumerate(runs):
                if os.path.exists(bld):
                    os.rename(bld, bld + '.run{}'.format(i - 1))
                os.makedirs(bld)
                env = sandbox.base_env(os.path.join(tmp, 'home'),
                                       extra=dict(extra_env,
                                                  PKG_CONFIG_PATH=depdir))
                env['PYTHONHASHSEED'] = str(case['seeds'][i])
                if i % 2:
                    env.update(case['junk'])
                r = sandbox.run(argv, cwd, env)
                if r.rc != 0:
                    if i == 0:
                        raise HarnessError('reference configure failed: ' +
                                           r.err[-800:])
                    raise Violation('det/configure-failed', '{}: exit {}: {}'
                                    .format(what, r.rc, r.err.strip()[-600:]),
                                    case)
                results.append((what, collect(bld)))
            # regenerating from the saved configuration: forced, then lazily
            # after an input became newer (what the build file itself runs)
            seeds = list(case['seeds'])
            for what, args in (('regenerate', ['regenerate', bld]),
                               ('regenerate --lazy',
                                ['regenerate', '--lazy', bld])):
                env = sandbox.base_env(os.path.join(tmp, 'home'),
                                       extra={'PKG_CONFIG_PATH': depdir})
                seeds.append(seeds[-1] // 2 + 17)
                env['PYTHONHASHSEED'] = str(seeds[-1])
                t = sandbox.Clock(tmp).tick(tmp)
                for f in [os.path.join(src, 'build.bfg')] + (
                        [tcf] if case.get('toolchain') else []):
                    os.utime(f, ns=(t, t))
                r = sandbox.run([bfg] + args, top, env)
                if r.rc != 0:
                    raise Violation('det/regenerate-failed', '{}: exit {}: {}'
                                    .format(what, r.rc,
                                            r.err.strip()[-600:]), case)
                results.append((what, collect(bld)))
            # the directories named through a symbolic link: the relative and
            # the absolute spelling of the same arguments give the same files
            pair = []
            for what, cwd, a_src, a_bld in (
                    ('absolute-through-link', '/', lsrc, lbld),
                    ('relative-through-link', tmp, 'link/top/src',
                     'link/top/bld')):
                if os.path.exists(bld):
                    os.rename(bld, bld + '.' + what)
                os.makedirs(bld)
                env = sandbox.base_env(os.path.join(tmp, 'home'),
                                       extra={'PKG_CONFIG_PATH': depdir})
                env['PYTHONHASHSEED'] = str(seeds[0])
                r = sandbox.run([bfg, 'configure-into', a_src, a_bld] + opts,
                                cwd, env)
                if r.rc != 0:
                    raise Violation('det/configure-failed', '{}: exit {}: {}'
                                    .format(what, r.rc, r.err.strip()[-600:]),
                                    case)
                pair.append((what, collect(bld)))
            for fn in pair[0][1][0]:
                if pair[0][1][0][fn] != pair[1][1][0].get(fn):
                    import difflib
                    d = '\n'.join(list(difflib.unified_diff(
                        pair[0][1][0][fn].decode('utf-8', 'replace')
                        .splitlines(),
                        (pair[1][1][0].get(fn) or b'').decode(
                            'utf-8', 'replace').splitlines(),
                        pair[0][0], pair[1][0], lineterm='', n=0))[:10])
                    raise Violation('det/' + fn.split('/')[0] + '-differs',
                                    '{} differs between the absolute and the '
                                    'relative spelling of directories reached '
                                    'through a symbolic link:\n{}'.format(
                                        fn, d[:1200]), case)
            # re-configuring a used build directory with other options gives
            # what a fresh build directory gets with those options
            other = [o if not o.startswith('--prefix=') else
                     '--prefix=/opt/c13-other' for o in opts]
            env = sandbox.base_env(os.path.join(tmp, 'home'),
                                   extra={'PKG_CONFIG_PATH': depdir})
            env['PYTHONHASHSEED'] = str(seeds[0])
            r = sandbox.run([bfg, 'configure-into', src, bld] + other, src,
                            env)
            if r.rc != 0:
                raise Violation('det/reconfigure-failed', r.err.strip()[-600:],
                                case)
            reconf = collect(bld)
            os.rename(bld, bld + '.used')
            os.makedirs(bld)
            r = sandbox.run([bfg, 'configure-into', src, bld] + other, src,
                            env)
            if r.rc != 0:
                raise HarnessError('configure with other prefix failed: ' +
                                   r.err[-600:])
            fresh_other = collect(bld)
            for fn in fresh_other[0]:
                if reconf[0].get(fn) != fresh_other[0][fn]:
                    import difflib
                    d = '\n'.join(list(difflib.unified_diff(
                        fresh_other[0][fn].decode('utf-8', 'replace')
                        .splitlines(),
                        (reconf[0].get(fn) or b'').decode('utf-8', 'replace')
                        .splitlines(), 'fresh build directory',
                        're-configured build directory', lineterm='',
                        n=0))[:10])
                    raise Violation(
                        'det/reconfigure-differs/' + fn.split('/')[0],
                        '{} after re-configuring a used build directory with '
                        '--prefix=/opt/c13-other differs from a fresh build '
                        'directory configured the same way:\n{}'.format(
                            fn, d[:1200]), case)
            base_what, (base_primary, base_aux) = results[0]
            for what, (primary, aux) in results[1:]:
                if sorted(primary) != sorted(base_primary):
                    raise Violation('det/file-set', '{} wrote {} but {} wrote '
                                    '{}'.format(base_what,
                                                sorted(base_primary), what,
                                                sorted(primary)), case)
                for fn in primary:
                    if primary[fn] != base_primary[fn]:
                        import difflib
                        a = base_primary[fn].decode('utf-8', 'replace')
                        b = primary[fn].decode('utf-8', 'replace')
                        d = '\n'.join(list(difflib.unified_diff(
                            a.splitlines(), b.splitlines(), lineterm='',
                            n=0))[:10])
                        kind = 'context' if 'hash' not in what else 'hash'
                        raise Violation(
                            'det/' + fn.split('/')[0] + '-differs',
                            '{} differs between [{}] (PYTHONHASHSEED={}) and '
                            '[{}] (PYTHONHASHSEED={}):\n{}'.format(
                                fn, base_what, seeds[0], what,
                                seeds[results.index(
                                    (what, (primary, aux)))], d[:1500]),
                            case)
                for fn in base_aux:
                    if aux.get(fn) != base_aux[fn]:
                        raise Violation('det/aux-differs', '{} differs as a '
                                        'set of entries between [{}] and [{}]'
                                        .format(fn, base_what, what), case)
    return prop


def _run(rec, seed, budget, shard, nshards):
    run_hypothesis(rec, cases(), prop_determinism(rec), budget, seed,
                   shrink=(os.environ.get('VERIF_TIER') == 'thorough'))


def tasks(tier):
    return [Task('determinism', _run, quick=16 * 4, thorough=16 * 100)]


def replay(task, case, rec):
    prop_determinism(rec)(case)
