"""C07 — Real-toolchain builds are incremental and survive header changes.

A stateful machine edits a generated C project (sources and a transitive
header graph that the build script never mentions) and builds it with the real
gcc through make or the reference ninja.  A logging wrapper around gcc tells
which objects were recompiled; the program's output tells whether they were
compiled from the current text."""
import os
import posixpath
import subprocess

from hypothesis import strategies as st
from hypothesis.stateful import (RuleBasedStateMachine, rule, precondition,
                                 initialize)

from ..runner import (run_hypothesis, Task, Violation, HarnessError,
                      run_machine, VERIF)
from .. import sandbox
from .. import graph

ID = 'C07'
LEVEL = 'exploration'
TECHNIQUE = ('stateful property-based testing (Hypothesis rule-based state '
             'machine) with the real compiler: model of the include closure '
             'predicts exactly which objects recompile and what the program '
             'prints after each edit history')
RULE = ('Histories of <= 14 steps over projects of 2-4 translation units and '
        '0-6 headers (names with spaces, #, $, +, @, sub-directories) that '
        'include each other transitively and are not listed in build.bfg; one '
        'project in three force-includes a precompiled header into every '
        'unit, object names may contain space, $, # and a directory.  '
        'Rules: modify source, modify header, add a header and include it, '
        'stop including and delete a header, rename a header and update its '
        'includers, break / repair a source (compile error), build, clean.  '
        'A scale task runs a fixed history (build, clean, build, header '
        'edit, build, source edit, build, clean) on projects of 33-257 '
        'units.  Non-trivial: a header edit after a successful build, or the '
        'deletion / rename of a header that some object\'s recorded '
        'dependencies still mention; distinct = backend + abstracted rule '
        'sequence.')
LEVEL_TEXT = ('Model-based stateful search with the real toolchain: after '
              'every build the set of recompiled objects must equal the set '
              'whose include closure changed, the program must print the '
              'values of the current texts, and no edit history may leave the '
              'build unable to proceed.')
LEVEL_NOTE = ('Trusted: gcc 12 writing the depfiles, GNU Make 4.3 / reference '
              'Ninja (deps=gcc); the logging wrapper tools/wrapbin/gccw.')
ASSUMPTIONS = ['header names exclude the characters for which C04 records '
               'known Make-side findings; ELF/Linux, gcc only']

WRAPBIN = os.path.join(VERIF, 'tools', 'wrapbin')
KF_SOURCE = 'inc/cannot-proceed/renamed-source-after-failed-compile'
PCH = 'pch.h'
EXT = '../ext/xe.h'      # header outside the source and build trees
OBJ_NAMES = ['obj{}', 'my obj{}', 'o$bj{}', 'o#bj{}', 'od ir/obj{}']
HEADER_NAMES = ['h1.h', 'my hdr.h', 'h#2.h', 'h$3.h', 'inc/h4.h', 'h+5.h',
                'h@6.h', 'inc/sub dir/h7.h', 'h8.hpp', 'h-9.h']


class IncMachine(RuleBasedStateMachine):
    backend = 'make'
    compiler = 'gccw'

    def __init__(self):
        super().__init__()
        self.ctx = sandbox.scratch('c07')
        self.tmp = os.path.realpath(self.ctx.__enter__())
        self.src = os.path.join(self.tmp, 'src')
        self.bld = os.path.join(self.tmp, 'bld')
        self.history = []
        self.ver = {}            # file -> version number
        self.rev = {}            # file -> number of times it was (re)written
        self.includes = {}       # file -> [headers it includes]
        self.tus = []
        self.broken = set()
        self.failed_compile = set()   # units whose last compile failed
        self.renamed_after_failed = set()
        self.built_closure = {}  # tu -> snapshot of closure at last compile
        self.counter = 0
        self.nbuilds = 0
        self.gen = set()         # units whose source is itself generated
        self.pch = None          # header precompiled and force-included
        self.ext = False         # a header directory outside both trees
        self.objnames = None     # explicit object names
        self.nontrivial = False
        self.header_edit_after_build = False
        self.clock = None
        self.env = sandbox.base_env(os.path.join(self.tmp, 'home'),
                                    path_extra=[WRAPBIN],
                                    extra={'CC': self.compiler})

    def _fail(self, key, msg):
        v = Violation(key, msg, {'backend': self.backend,
                                 'compiler': self.compiler,
                                 'history': self.history})
        self._vf_holder['last'] = v
        raise v

    # -- model -----------------------------------------------------------
    def closure(self, f, seen=None):
        seen = set() if seen is None else seen
        for h in self.includes.get(f, []):
            if h not in seen:
                seen.add(h)
                self.closure(h, seen)
        return seen

    def value(self, f):
        return self.ver[f] + sum(self.value(h)
                                 for h in self.includes.get(f, []))

    def snapshot(self, tu):
        # every rewrite of the unit or of a header in its include closure
        # gives the file a newer timestamp: the object is then out of date
        files = [tu] + sorted(self.closure(tu))
        return tuple((f, self.rev.get(f, 0)) for f in files)

    def ident(self, f):
        return ''.join(c if c.isalnum() else '_' for c in f)

    def write(self, f):
        """(Re)write file f from the model and stamp it as newest."""
        L = []
        isheader = f not in self.tus
        if isheader:
            guard = 'G_' + self.ident(f).upper()
            L += ['#ifndef ' + guard, '#define ' + guard]
        for h in self.includes.get(f, []):
            if h == self.pch and not isheader:
                continue         # reaches the unit through pch= only
            if h == EXT:
                # found through the include directory given by absolute path
                L.append('#include "{}"'.format(posixpath.basename(h)))
                continue
            rel = posixpath.relpath(h, posixpath.dirname(f) or '.')
            L.append('#include "{}"'.format(rel))
        calls = ''.join(' + hv_{}()'.format(self.ident(h))
                        for h in self.includes.get(f, []))
        if isheader:
            if f in self.broken:
                L.append('#error deliberately broken')
            L.append('static inline int hv_{}(void) {{ return {}{}; }}'
                     .format(self.ident(f), self.ver[f], calls))
            L.append('#endif')
        else:
            if f in self.broken:
                L.append('#error deliberately broken')
            L.append('int tu_{}(void) {{ return {}{}; }}'.format(
                self.tus.index(f), self.ver[f], calls))
        p = os.path.join(self.src, f + ('.in' if f in self.gen else ''))
        sandbox.write_file(p, '\n'.join(L) + '\n')
        self.rev[f] = self.rev.get(f, 0) + 1
        self.stamp(p)

    def stamp(self, p):
        t = self.clock.tick(self.tmp)
        if os.path.lexists(p):
            os.utime(p, ns=(t, t))
        d = os.path.dirname(p)
        if os.path.isdir(d):
            os.utime(d, ns=(t, t))

    @initialize(ntu=st.integers(2, 4), data=st.data())
    def setup(self, ntu, data):
        os.makedirs(self.src)
        self.clock = sandbox.Clock(self.tmp)
        self.tus = ['t{}.c'.format(i) for i in range(ntu)]
        nh = data.draw(st.integers(0, 4))
        headers = data.draw(st.lists(st.sampled_from(HEADER_NAMES),
                                     min_size=nh, max_size=nh, unique=True))
        for i, h in enumerate(headers):
            self.ver[h] = 100 * (i + 1)
            earlier = headers[:i]
            k = data.draw(st.integers(0, min(2, len(earlier))))
            self.includes[h] = data.draw(st.lists(
                st.sampled_from(earlier), min_size=k, max_size=k,
                unique=True)) if earlier else []
        for i, t in enumerate(self.tus):
            self.ver[t] = i + 1
            k = data.draw(st.integers(min(1, len(headers)),
                                      min(2, len(headers))))
            self.includes[t] = data.draw(st.lists(
                st.sampled_from(headers), min_size=k, max_size=k,
                unique=True)) if headers else []
        if data.draw(st.integers(0, 2)) == 0:
            # a precompiled header, force-included into every unit
            self.pch = PCH
            self.ver[PCH] = 9000
            k = data.draw(st.integers(0, min(2, len(headers))))
            self.includes[PCH] = data.draw(st.lists(
                st.sampled_from(headers), min_size=k, max_size=k,
                unique=True)) if headers else []
            for t in self.tus:
                self.includes[t] = [PCH] + self.includes[t]
        if data.draw(st.integers(0, 2)) == 0:
            # the last unit is produced by a build step (a copy of a
            # template) and compiled from the build directory
            self.gen = {self.tus[-1]}
        if data.draw(st.integers(0, 2)) == 0:
            # a header in a directory outside the source and build trees,
            # named to the build by absolute path
            self.ext = True
            self.ver[EXT] = 7000
            self.includes[EXT] = []
            users = data.draw(st.lists(st.sampled_from(self.tus), min_size=1,
                                       unique=True))
            for t in users:
                self.includes[t] = self.includes[t] + [EXT]
        self.objnames = [data.draw(st.sampled_from(OBJ_NAMES)).format(i)
                         for i in range(ntu)]
        if data.draw(st.integers(0, 2)) == 0:
            # two objects with the same base name in different directories
            self.objnames[0], self.objnames[1] = 'da/unit', 'db/unit'
        for f in list(self.ver):
            self.write(f)
        self.write_main_and_script()
        r = sandbox.configure(self.src, self.bld, self.env,
                              backend=self.backend)
        if r.rc != 0:
            raise HarnessError('configure failed: ' + r.err[-800:])
        self.history.append(['setup', list(self.tus),
                             {h: self.includes[h] for h in headers +
                              ([PCH] if self.pch else []) +
                              ([EXT] if self.ext else [])},
                             {t: self.includes[t] for t in self.tus},
                             {'pch': self.pch, 'objnames': self.objnames,
                              'gen': sorted(self.gen), 'ext': self.ext}])

    def write_main_and_script(self):
        n = len(self.tus)
        main = ['#include <stdio.h>']
        main += ['int tu_{}(void);'.format(i) for i in range(n)]
        main.append('int main(void) {')
        main += ['  printf("tu{}=%d\\n", tu_{}());'.format(i, i)
                 for i in range(n)]
        main += ['  return 0;', '}']
        p = os.path.join(self.src, 'main.c')
        if not os.path.exists(p):
            sandbox.write_file(p, '\n'.join(main) + '\n')
        # explicit objects keep their names when a source is renamed
        L = ["project('c07')"]
        kw = ''
        if self.pch:
            L.append('pch = precompiled_header(file={!r})'.format(self.pch))
            kw = ', pch=pch'
        names = self.objnames or ['obj{}'.format(i) for i in range(n)]
        extinc = extlist = ''
        if self.ext:
            L.append('ext = header_directory({!r})'.format(
                os.path.join(self.tmp, 'ext')))
            extinc, extlist = ', includes=[ext]', ', ext'
        for i, t in enumerate(self.tus):
            if t in self.gen:
                L.append("g{0} = build_step({1!r}, cmd=['cp', build_step.input, "
                         "build_step.output], files=[{2!r}])".format(
                             i, 'g_' + t, t + '.in'))
                L.append("o{} = object_file({!r}, file=g{}, includes=["
                         "header_directory('.'){}]{})".format(
                             i, names[i], i, extlist, kw))
            else:
                L.append("o{} = object_file({!r}, file={!r}{}{})".format(
                    i, names[i], t, extinc, kw))
        L.append("executable('prog', ['main.c'] + [{}])".format(
            ', '.join('o{}'.format(i) for i in range(n))))
        b = os.path.join(self.src, 'build.bfg')
        sandbox.write_file(b, '\n'.join(L) + '\n')
        if self.clock is not None:
            self.stamp(b)

    def headers(self):
        return [f for f in self.ver if f not in self.tus]

    def removable_headers(self):
        return [f for f in self.headers()
                if f != self.pch and f != EXT and f not in self.broken]

    def eff_broken(self):
        """Units that cannot compile: broken themselves or through a broken
        header in their include closure."""
        return {t for t in self.tus
                if t in self.broken or self.closure(t) & self.broken}

    @rule(data=st.data(), suffix=st.sampled_from(['_v2', '_new', '2']))
    def rename_source(self, data, suffix):
        i = data.draw(st.integers(0, len(self.tus) - 1))
        old = self.tus[i]
        new = old[:-2] + suffix + '.c'
        if new in self.ver or len(new) > 20 or old in self.gen:
            return
        if old in self.failed_compile and self.backend == 'make' and \
                self._vf_rec.is_open(KF_SOURCE):
            # open known finding: steer around it, count the exclusion
            self._vf_rec.excluded()
            return
        if old in self.failed_compile:
            self.renamed_after_failed.add(old)
        self.tus[i] = new
        for d in (self.ver, self.rev, self.includes):
            if old in d:
                d[new] = d.pop(old)
        if old in self.broken:
            self.broken.discard(old)
            self.broken.add(new)
        if old in self.built_closure:
            self.built_closure[new] = self.built_closure.pop(old)
        os.unlink(os.path.join(self.src, old))
        self.write(new)
        self.write_main_and_script()
        self.history.append(['rename_source', old, new])
        self.nontrivial = self.nontrivial or bool(self.nbuilds)

    # -- rules -----------------------------------------------------------
    @rule(data=st.data())
    def modify_source(self, data):
        t = data.draw(st.sampled_from(self.tus))
        self.counter += 1
        self.ver[t] = 1000 * self.counter + self.tus.index(t)
        self.write(t)
        self.history.append(['modify_source', t])

    @precondition(lambda self: self.headers())
    @rule(data=st.data())
    def modify_header(self, data):
        h = data.draw(st.sampled_from(self.headers()))
        self.counter += 1
        self.ver[h] = 1000 * self.counter + 500
        self.write(h)
        self.history.append(['modify_header', h])
        if self.nbuilds:
            self.header_edit_after_build = True

    @rule(data=st.data())
    def add_header(self, data):
        cands = [h for h in HEADER_NAMES if h not in self.ver]
        if not cands:
            return
        h = data.draw(st.sampled_from(cands))
        user = data.draw(st.sampled_from(
            self.tus + [x for x in self.headers() if x != EXT]))
        self.counter += 1
        self.ver[h] = 1000 * self.counter + 7
        self.includes[h] = []
        self.write(h)
        self.includes[user] = self.includes.get(user, []) + [h]
        self.write(user)
        self.history.append(['add_header', h, user])

    @precondition(lambda self: self.removable_headers())
    @rule(data=st.data())
    def delete_header(self, data):
        h = data.draw(st.sampled_from(self.removable_headers()))
        if any(h in self.closure(t) for t in self.tus
               if self.built_closure.get(t)) or True:
            # some object's recorded dependencies may still mention it
            self.nontrivial = self.nontrivial or bool(self.nbuilds)
        for f in list(self.includes):
            if h in self.includes[f]:
                self.includes[f] = [x for x in self.includes[f] if x != h]
                self.write(f)
        os.unlink(os.path.join(self.src, h))
        self.stamp(os.path.join(self.src, h))
        del self.ver[h]
        self.includes.pop(h, None)
        self.history.append(['delete_header', h])

    @precondition(lambda self: self.removable_headers())
    @rule(data=st.data())
    def rename_header(self, data):
        cands = [h for h in HEADER_NAMES if h not in self.ver]
        if not cands:
            return
        old = data.draw(st.sampled_from(self.removable_headers()))
        new = data.draw(st.sampled_from(cands))
        self.ver[new] = self.ver.pop(old)
        self.includes[new] = self.includes.pop(old, [])
        os.unlink(os.path.join(self.src, old))
        self.stamp(os.path.join(self.src, old))
        self.write(new)
        for f in list(self.includes):
            if old in self.includes[f]:
                self.includes[f] = [new if x == old else x
                                    for x in self.includes[f]]
                self.write(f)
        self.history.append(['rename_header', old, new])
        self.nontrivial = self.nontrivial or bool(self.nbuilds)

    @rule(data=st.data())
    def break_source(self, data):
        t = data.draw(st.sampled_from(self.tus))
        if t in self.broken:
            self.broken.discard(t)
            self.history.append(['repair_source', t])
        else:
            self.broken.add(t)
            self.history.append(['break_source', t])
        self.write(t)

    @precondition(lambda self: self.headers())
    @rule(data=st.data())
    def break_header(self, data):
        """A header that does not compile (and its later repair): every unit
        that includes it fails without having been touched itself."""
        h = data.draw(st.sampled_from(self.headers()))
        if h in self.broken:
            self.broken.discard(h)
            self.history.append(['repair_header', h])
        else:
            self.broken.add(h)
            self.history.append(['break_header', h])
        self.write(h)
        if self.nbuilds:
            self.header_edit_after_build = True

    def _log(self, n):
        return os.path.join(self.tmp, 'cc.log.{}'.format(n))

    def _compiled(self, log):
        out = []
        for e in sandbox.read_log(log):
            argv = [bytes.fromhex(a).decode('utf-8', 'surrogateescape')
                    for a in e['argv']]
            if '-c' in argv:
                srcf = os.path.relpath(argv[argv.index('-c') + 1], self.src)
                if os.path.basename(srcf).startswith('g_') and \
                        os.path.basename(srcf)[2:] in self.gen:
                    srcf = os.path.basename(srcf)[2:]
                if srcf != self.pch:
                    out.append(srcf)
        return out

    @precondition(lambda self: self.nbuilds < 6)
    @rule()
    def build(self):
        self.nbuilds += 1
        if self.header_edit_after_build:
            self.nontrivial = True
        self.history.append(['build'])
        self.clock.tick(self.tmp)
        log = self._log(self.nbuilds)
        env = dict(self.env, VF_LOG=log)
        r = sandbox.run_backend(self.backend, self.bld, env, ['all'],
                                extra=['-k'] if self.backend == 'make'
                                else ['-k', '0'])
        if self.backend == 'ninja' and r.rc == 2 and \
                'refninja: unsupported' in r.err:
            raise HarnessError('reference ninja: ' + r.err[-500:])
        compiled = self._compiled(log)
        expect = set()
        for t in self.tus:
            snap = self.snapshot(t)
            if self.built_closure.get(t) != snap:
                expect.add(t)
        if 'main.c' not in self.built_closure:
            expect.add('main.c')
        text = (r.err + r.out).strip()
        if ('No rule to make target' in text or
                'missing and no known rule' in text):
            import re
            m = re.search(r"No rule to make target '([^']*)'", text)
            gone = os.path.basename(m.group(1)) if m else ''
            if gone in self.renamed_after_failed:
                self._fail(KF_SOURCE, 'a source renamed after a failed '
                           'compile wedges the build: ' + text[-500:])
            self._fail('inc/cannot-proceed/no-rule', 'the build cannot '
                       'proceed after {}: {}'.format(
                           [h for h in self.history[-6:]], text[-600:]))
        broken = self.eff_broken()
        if broken:
            if r.rc == 0:
                self._fail('inc/broken-built', 'sources {} contain #error but '
                           'the build succeeded'.format(sorted(broken)))
            if 'deliberately broken' not in text:
                self._fail('inc/cannot-proceed', 'build failed for another '
                           'reason than the broken source: ' + text[-700:])
        elif r.rc != 0:
            kind = 'no-rule' if 'No rule to make target' in text or \
                'missing and no known rule' in text else 'other'
            self._fail('inc/cannot-proceed/' + kind, 'build failed after {}: '
                       '{}'.format([h for h in self.history[-6:]],
                                   text[-700:]))
        dup = {c for c in compiled if compiled.count(c) > 1}
        if dup:
            self._fail('inc/compiled-twice', '{} compiled twice in one build'
                       .format(sorted(dup)))
        got = set(compiled)
        missing = {t for t in expect - got if t not in broken}
        # with -k a broken TU is attempted (and fails); others must still be
        # compiled when due
        spurious = got - expect
        if missing:
            self._fail('inc/stale-object', 'objects of {} were not recompiled '
                       'although their include closure changed; compiled: {}'
                       .format(sorted(missing), sorted(got)))
        if spurious:
            self._fail('inc/needless-recompile', '{} recompiled although '
                       'nothing they include changed'.format(
                           sorted(spurious)))
        self.failed_compile = {t for t in got if t in broken}
        for t in got | {'main.c'}:
            if t in self.tus:
                if t not in broken:
                    self.built_closure[t] = self.snapshot(t)
            else:
                self.built_closure[t] = True
        if not broken:
            p = subprocess.run([os.path.join(self.bld, 'prog')], env={},
                               stdout=subprocess.PIPE, stderr=subprocess.PIPE)
            want = ''.join('tu{}={}\n'.format(i, self.value(t))
                           for i, t in enumerate(self.tus))
            if p.returncode != 0 or p.stdout.decode() != want:
                self._fail('inc/wrong-output', 'program prints {!r}, the '
                           'current sources give {!r}'.format(
                               p.stdout.decode(), want))

    @precondition(lambda self: self.nbuilds > 0 and not self.broken)
    @rule()
    def clean_build(self):
        self.history.append(['clean'])
        c = sandbox.run_backend(self.backend, self.bld, self.env, ['clean'])
        if c.rc != 0:
            self._fail('inc/clean-failed', (c.err + c.out).strip()[-500:])
        leftovers = []
        for dp, dn, fn in os.walk(self.bld):
            for n in fn:
                if n.endswith(('.o', '.d')) or n == 'prog':
                    leftovers.append(os.path.relpath(os.path.join(dp, n),
                                                     self.bld))
        if leftovers:
            self._fail('inc/clean-leftovers', 'clean left {}'.format(
                sorted(leftovers)))
        self.built_closure = {}

    def teardown(self):
        rec = self._vf_rec
        if self.nbuilds:
            ops = [h[0] for h in self.history]
            extra = set()
            if self.pch:
                extra.add('precompiled-header')
            if self.gen:
                extra.add('generated-unit')
            if self.ext:
                extra.add('external-header-directory')
            if any(n != 'obj{}'.format(i)
                   for i, n in enumerate(self.objnames or [])):
                extra.add('special-object-name')
            rec.case({'op:' + o for o in set(ops)} | {self.backend,
                                                      self.compiler} | extra,
                     nontrivial=([self.backend, self.compiler, ops,
                                  bool(self.pch)]
                                 if self.nontrivial else None),
                     sample={'backend': self.backend,
                             'compiler': self.compiler,
                             'history': self.history})
        self.ctx.__exit__(None, None, None)


def _machine(backend, compiler='gccw'):
    return type('IncMachine_{}_{}'.format(backend, compiler), (IncMachine,),
                {'backend': backend, 'compiler': compiler})


def _run(rec, seed, budget, shard, nshards, backend, compiler='gccw'):
    run_machine(rec, _machine(backend, compiler), budget, 14, seed)


def replay(task, case, rec):
    """Re-run a recorded history without Hypothesis."""
    if 'pad' in case or 'deps' in case:
        return _replay_depfixer(case, rec)
    M = _machine(case['backend'], case.get('compiler', 'gccw'))
    M._vf_holder = {'last': None}
    M._vf_rec = rec
    m = M()

    class FakeData:
        def __init__(self, value):
            self.value = value

        def draw(self, strategy):
            return self.value
    try:
        for h in case['history']:
            op = h[0]
            if op == 'setup':
                tus, hinc, tinc = h[1], h[2], h[3]
                if len(h) > 4:
                    m.pch, m.objnames = h[4]['pch'], h[4]['objnames']
                    m.gen = set(h[4].get('gen', []))
                    m.ext = bool(h[4].get('ext'))
                os.makedirs(m.src)
                m.clock = sandbox.Clock(m.tmp)
                m.tus = list(tus)
                for i, (hh, inc) in enumerate(hinc.items()):
                    m.ver[hh] = 100 * (i + 1) if hh != m.pch else 9000
                    m.includes[hh] = list(inc)
                for i, t in enumerate(m.tus):
                    m.ver[t] = i + 1
                    m.includes[t] = list(tinc[t])
                for f in list(m.ver):
                    m.write(f)
                m.write_main_and_script()
                r = sandbox.configure(m.src, m.bld, m.env,
                                      backend=m.backend)
                if r.rc != 0:
                    raise HarnessError('configure failed: ' + r.err[-800:])
            elif op == 'modify_source':
                m.counter += 1
                m.ver[h[1]] = 1000 * m.counter + m.tus.index(h[1])
                m.write(h[1])
            elif op == 'modify_header':
                m.counter += 1
                m.ver[h[1]] = 1000 * m.counter + 500
                m.write(h[1])
            elif op == 'add_header':
                m.counter += 1
                m.ver[h[1]] = 1000 * m.counter + 7
                m.includes[h[1]] = []
                m.write(h[1])
                m.includes[h[2]] = m.includes.get(h[2], []) + [h[1]]
                m.write(h[2])
            elif op == 'delete_header':
                m.delete_header(data=FakeData(h[1]))
                m.history.pop()
            elif op == 'rename_header':
                old, new = h[1], h[2]
                m.ver[new] = m.ver.pop(old)
                m.includes[new] = m.includes.pop(old, [])
                os.unlink(os.path.join(m.src, old))
                m.stamp(os.path.join(m.src, old))
                m.write(new)
                for f in list(m.includes):
                    if old in m.includes[f]:
                        m.includes[f] = [new if x == old else x
                                         for x in m.includes[f]]
                        m.write(f)
            elif op == 'rename_source':
                old, new = h[1], h[2]
                i = m.tus.index(old)
                m.tus[i] = new
                for d in (m.ver, m.rev, m.includes):
                    if old in d:
                        d[new] = d.pop(old)
                if old in m.broken:
                    m.broken.discard(old)
                    m.broken.add(new)
                if old in m.built_closure:
                    m.built_closure[new] = m.built_closure.pop(old)
                if old in m.failed_compile:
                    m.renamed_after_failed.add(old)
                os.unlink(os.path.join(m.src, old))
                m.write(new)
                m.write_main_and_script()
            elif op in ('break_source', 'repair_source', 'break_header',
                        'repair_header'):
                if op.startswith('break_'):
                    m.broken.add(h[1])
                else:
                    m.broken.discard(h[1])
                m.write(h[1])
            elif op == 'build':
                m.build()
                m.history.pop()
            elif op == 'clean':
                m.clean_build()
                m.history.pop()
            m.history.append(h)
    finally:
        m.ctx.__exit__(None, None, None)


SCALE_SIZES = [33, 51, 65, 101, 129, 257]


def _run_scale(rec, seed, budget, shard, nshards, sizes):
    """The same model on projects with many translation units (anything
    that batches, folds or truncates long lists shows only here)."""
    jobs = [(b, n) for n in sizes for b in ('make', 'ninja')]
    # short canonical histories that are always run: a header reached only
    # through the precompiled header changes (every compiler flavour), a
    # generated unit's header changes
    core = []
    for backend, compiler in (('make', 'gccw'), ('make', 'clangw'),
                              ('ninja', 'gccw')):
        for gen in ([], ['t1.c']):
            core.append({'backend': backend, 'compiler': compiler, 'history': [
                ['setup', ['t0.c', 't1.c'],
                 {'h1.h': [], 'inc/h4.h': [], 'pch.h': ['h1.h']},
                 {'t0.c': ['pch.h'], 't1.c': ['pch.h', 'inc/h4.h']},
                 {'pch': 'pch.h', 'objnames': ['obj0', 'obj1'], 'gen': gen}],
                ['build'], ['modify_header', 'h1.h'], ['build'],
                ['modify_header', 'inc/h4.h'], ['build'],
                ['modify_header', 'pch.h'], ['build'], ['build']]})
        # a header in a directory named by absolute path changes; a header
        # stops compiling for one build and is repaired
        core.append({'backend': backend, 'compiler': compiler, 'history': [
            ['setup', ['t0.c', 't1.c'],
             {'h1.h': [], 'inc/h4.h': ['h1.h'], EXT: []},
             {'t0.c': ['h1.h', EXT], 't1.c': ['inc/h4.h']},
             {'pch': None, 'objnames': ['obj0', 'obj1'], 'gen': [],
              'ext': True}],
            ['build'], ['modify_header', EXT], ['build'],
            ['break_header', 'h1.h'], ['build'], ['build'],
            ['repair_header', 'h1.h'], ['build'],
            ['break_header', 'inc/h4.h'], ['build'],
            ['repair_header', 'inc/h4.h'], ['build'], ['build']]})
    for k, case in enumerate(core):
        if k % nshards != shard:
            continue
        rec.case({case['backend'], case['compiler'], 'core-history'},
                 nontrivial=[case['backend'], case['compiler'],
                             bool(case['history'][0][4]['gen'])],
                 sample={'backend': case['backend'],
                         'compiler': case['compiler'], 'core': True})
        try:
            replay('scale', case, rec)
        except Violation as v:
            rec.fail('core/' + v.key, v.message, case)
    for k, (backend, n) in enumerate(jobs):
        if (k + len(core)) % nshards != shard:
            continue
        tus = ['t{}.c'.format(i) for i in range(n)]
        case = {'backend': backend, 'compiler': 'gccw', 'history': [
            ['setup', tus, {'h1.h': [], 'inc/h4.h': ['h1.h']},
             {t: (['inc/h4.h'] if i % 2 else ['h1.h'])
              for i, t in enumerate(tus)},
             {'pch': None, 'objnames': ['obj{}'.format(i)
                                        for i in range(n)]}],
            ['build'], ['clean'], ['build'], ['modify_header', 'h1.h'],
            ['build'], ['modify_source', tus[n // 2]], ['build'], ['clean']]}
        rec.case({backend, 'units={}'.format(n)},
                 nontrivial=[backend, n], sample={'backend': backend,
                                                  'units': n})
        try:
            replay('scale', case, rec)
        except Violation as v:
            rec.fail('scale/' + v.key, '{} units: {}'.format(n, v.message),
                     case)


# --------------------------------------------------------------------------
# the depfile post-processor on compiler-style depfiles of any size

def _gcc_escape(name):
    return name.replace('$', '$$').replace('#', '\\#').replace(' ', '\\ ')


def depfile_text(target, deps, width):
    """Lay a rule out the way compilers do: continuation lines."""
    out = _gcc_escape(target) + ':'
    col = len(out)
    for d in deps:
        e = _gcc_escape(d)
        if col + 1 + len(e) > width:
            out += ' \\\n'
            col = 0
        out += ' ' + e
        col += 1 + len(e)
    return out + '\n'


def check_depfixer(rec, target, deps, width, case):
    import io
    from bfg9000 import depfixer
    text = depfile_text(target, deps, width)
    buf = io.StringIO()
    try:
        depfixer.emit_deps(io.StringIO(text), buf)
    except Exception as e:
        rec.fail('depfixer/rejected', 'the depfile post-processor rejected a '
                 'compiler-style depfile of {} bytes ({} prerequisites, lines '
                 'of <= {} columns): {}: {}'.format(
                     len(text), len(deps), width, type(e).__name__, e), case)
        return
    want = ''.join(_gcc_escape(d) + ':\n' for d in deps)
    if buf.getvalue() != want:
        got = buf.getvalue().split('\n')
        exp = want.split('\n')
        k = next((i for i, (a, b) in enumerate(zip(got, exp)) if a != b),
                 min(len(got), len(exp)))
        rec.fail('depfixer/wrong-rules', 'depfile of {} bytes: rule #{} is '
                 '{!r}, expected {!r}'.format(
                     len(text), k, got[k] if k < len(got) else None,
                     exp[k] if k < len(exp) else None), case)


def _run_depfixer(rec, seed, budget, shard, nshards, sweep):
    names = DEPNAMES
    if sweep:
        # every alignment of the text relative to any block size: one leading
        # name grows by a byte per case
        n = 0
        for pad in range(0, 4200 if sweep == 'full' else 300):
            if pad % nshards != shard:
                continue
            deps = sweep_deps(pad)
            case = {'pad': pad, 'width': 78}
            rec.case({'sweep'}, nontrivial=['pad', pad], sample=case)
            check_depfixer(rec, 'obj/my obj.o', deps, 78, case)
        return
    from hypothesis import strategies as hst
    strat = hst.fixed_dictionaries({
        'deps': hst.lists(hst.one_of(
            hst.sampled_from(names),
            hst.text(alphabet='abcXYZ019_-+./ #$', min_size=1, max_size=60)
            .filter(lambda t: t.strip() == t and t)), min_size=0,
            max_size=200),
        'width': hst.sampled_from([20, 78, 78, 200, 100000])})

    def prop(case):
        deps = [d for d in case['deps'] if d.strip()]
        rec.case({'deps<10' if len(deps) < 10 else 'deps>=10'},
                 nontrivial=([len(deps), case['width']]
                             if len(deps) >= 10 else None), sample=case)
        check_depfixer(rec, 'prog.int/main.o', deps, case['width'], case)
    run_hypothesis(rec, strat, prop, budget, seed)


DEPNAMES = ['/usr/include/stdio.h', 'inc/my hdr.h', 'h#2.h', 'h$3.h',
            '../src/a/very/long/path/component/' + 'x' * 40 + '.h', 'a.h',
            '/opt/x y/z#1/$v.h']


def sweep_deps(pad):
    return ['p' * (pad % 211 + 1) + '.h'] * (pad // 211 + 1) + \
        [DEPNAMES[i % len(DEPNAMES)] for i in range(420)]


def _replay_depfixer(case, rec):
    if 'pad' in case:
        check_depfixer(rec, 'obj/my obj.o', sweep_deps(case['pad']),
                       case['width'], case)
    else:
        check_depfixer(rec, 'prog.int/main.o',
                       [d for d in case['deps'] if d.strip()], case['width'],
                       case)


def tasks(tier):
    try:
        seed = int(os.environ.get('VERIF_SEED') or '1')
    except ValueError:
        seed = 1
    sizes = SCALE_SIZES if tier != 'quick' else \
        sorted({51, [33, 65, 101, 129][seed % 4]})
    return [Task('scale', _run_scale, quick=1, thorough=1, sizes=sizes),
            Task('depfixer', _run_depfixer, quick=16 * 100,
                 thorough=16 * 5000, sweep=None),
            Task('depfixer-sweep', _run_depfixer, quick=1, thorough=1,
                 sweep='short' if tier == 'quick' else 'full'),
            Task('inc-make', _run, quick=16 * 3, thorough=16 * 60,
                 backend='make'),
            Task('inc-make-clang', _run, quick=16 * 2, thorough=16 * 40,
                 backend='make', compiler='clangw'),
            Task('inc-ninja', _run, quick=16 * 3, thorough=16 * 60,
                 backend='ninja')]
