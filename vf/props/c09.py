"""C09 — Saved configuration is the only input of later regenerations.

(A) in-process: EnvVarDict stateful machine against a plain-dict model;
    Environment.save/load round trip; older formats by down-conversion.
(B) end-to-end: configure under a generated environment / toolchain file /
    options, then regenerate / env / run under a perturbed ambient.
"""
import copy
import json
import os
import platform

from hypothesis import strategies as st
from hypothesis.stateful import (RuleBasedStateMachine, rule, invariant,
                                 precondition)

from ..runner import (Task, Violation, HarnessError, run_hypothesis,
                      run_machine)
from .. import sandbox

ID = 'C09'
LEVEL = 'exploration'
TECHNIQUE = ('property-based testing (Hypothesis): stateful model of the '
             'variable store, save/load round trips incl. down-converted old '
             'formats, and metamorphic regenerate under perturbed ambient '
             'environments')
RULE = ('(A) operation sequences (<= 30 steps of setitem, del, pop, popitem, '
        'setdefault, update, clear, |=, reset, JSON save/load) on EnvVarDict '
        'over a small key pool and Unicode values; Environment objects over '
        'all install roots, library modes, compdb, extra_args, toolchain '
        'path, Unicode variables, saved/loaded and down-converted to format '
        'versions 16..12; non-trivial = a deletion followed by save/load or '
        'reset / a non-default field in the round trip.  (B) configure with '
        'generated environment E1, toolchain statements and options, then '
        'regenerate (forced and lazy; optionally one that fails part-way '
        'through the toolchain file)/env/run under an ambient that differs from E1 in a '
        'variable bfg9000 reads; non-trivial = ambient differs in CC/CFLAGS/'
        'CPPFLAGS/LDFLAGS or the toolchain mutates a variable; distinct = '
        'abstracted operation sequence / option shape.')
LEVEL_TEXT = ('Generated-input search: model-based stateful testing of the '
              'variable store, round-trip laws for the saved configuration '
              '(incl. inverse-upgraded older formats), and an end-to-end '
              'metamorphic check that later invocations depend only on the '
              'saved configuration.')
LEVEL_NOTE = ('Trusted: a plain dict as the model of the variable store; the '
              'down-conversion is the inverse of the upgrade steps documented '
              'in Environment.load; real gcc for part B.')
ASSUMPTIONS = [
    'mopack is unusable in this sandbox: configure runs with '
    '--no-resolve-packages, so the mopack list is always empty',
]

KEYS = ['A', 'B', 'CC', 'CFLAGS', 'PATH', 'é', 'long_name_1', 'x']
VALS = st.one_of(st.sampled_from(['', 'v', 'gcc', '-O2 -g', 'a b', 'ü', '1']),
                 st.text(st.characters(blacklist_categories=('Cs',),
                                       blacklist_characters='\x00'),
                         max_size=6))


def apply_changes(initial, changes):
    out = dict(initial)
    for k, v in changes.items():
        if v is None:
            out.pop(k, None)
        else:
            out[k] = v
    return out


class EnvVarMachine(RuleBasedStateMachine):
    def __init__(self):
        super().__init__()
        self.real = None
        self.history = []
        self.flags = set()

    def _fail(self, key, msg):
        v = Violation(key, msg, {'history': self.history})
        self._vf_holder['last'] = v
        raise v

    @precondition(lambda self: self.real is None)
    @rule(init=st.dictionaries(st.sampled_from(KEYS), VALS, max_size=5))
    def create(self, init):
        from bfg9000.environment import EnvVarDict
        self.real = EnvVarDict(init)
        self.initial = dict(init)
        self.model = dict(init)
        self.history.append(['create', init])

    def _op(self, name, *args):
        self.history.append([name] + list(args))

    @precondition(lambda self: self.real is not None)
    @rule(k=st.sampled_from(KEYS), v=VALS)
    def setitem(self, k, v):
        self._op('setitem', k, v)
        self.real[k] = v
        self.model[k] = v

    @precondition(lambda self: self.real is not None)
    @rule(k=st.sampled_from(KEYS))
    def delitem(self, k):
        self._op('delitem', k)
        if k in self.model:
            del self.real[k]
            del self.model[k]
            self.flags.add('deleted')
        else:
            try:
                del self.real[k]
            except KeyError:
                return
            self._fail('envvardict/delitem', 'deleting a missing key did not '
                       'raise KeyError')

    @precondition(lambda self: self.real is not None)
    @rule(k=st.sampled_from(KEYS), d=st.one_of(st.none(), VALS))
    def pop(self, k, d):
        self._op('pop', k, d)
        if k in self.model:
            self.flags.add('deleted')
        got = self.real.pop(k, d)
        want = self.model.pop(k, d)
        if got != want:
            self._fail('envvardict/pop', 'pop returned {!r}, model {!r}'
                       .format(got, want))

    @precondition(lambda self: self.real is not None and self.model)
    @rule()
    def popitem(self):
        self._op('popitem')
        k, v = self.real.popitem()
        if self.model.get(k) != v:
            self._fail('envvardict/popitem', 'popitem returned a foreign item')
        del self.model[k]
        self.flags.add('deleted')

    @precondition(lambda self: self.real is not None)
    @rule(k=st.sampled_from(KEYS), v=VALS)
    def setdefault(self, k, v):
        self._op('setdefault', k, v)
        got = self.real.setdefault(k, v)
        want = self.model.setdefault(k, v)
        if got != want:
            self._fail('envvardict/setdefault', 'returned {!r}, model {!r}'
                       .format(got, want))

    @precondition(lambda self: self.real is not None)
    @rule(d=st.dictionaries(st.sampled_from(KEYS), VALS, max_size=3),
          how=st.sampled_from(['dict', 'kwargs', 'pairs']))
    def update(self, d, how):
        self._op('update', d, how)
        if how == 'dict':
            self.real.update(d)
        elif how == 'pairs':
            self.real.update(list(d.items()))
        else:
            kw = {k: v for k, v in d.items() if k.isidentifier()}
            d = kw
            self.real.update(**kw)
        self.model.update(d)

    @precondition(lambda self: self.real is not None)
    @rule(d=st.dictionaries(st.sampled_from(KEYS), VALS, max_size=3))
    def ior(self, d):
        self._op('ior', d)
        self.real |= d
        self.model.update(d)

    @precondition(lambda self: self.real is not None)
    @rule()
    def clear(self):
        self._op('clear')
        if self.model:
            self.flags.add('deleted')
        self.real.clear()
        self.model.clear()

    @precondition(lambda self: self.real is not None)
    @rule()
    def reset(self):
        self._op('reset')
        self.real.reset()
        self.model = dict(self.initial)
        if dict(self.real.changes) != {}:
            self._fail('envvardict/reset', 'changes not empty after reset: '
                       '{!r}'.format(self.real.changes))
        if 'deleted' in self.flags:
            self.flags.add('delete-then-reload')

    @precondition(lambda self: self.real is not None)
    @rule()
    def save_load(self):
        from bfg9000.environment import EnvVarDict
        self._op('save_load')
        data = json.loads(json.dumps(self.real.to_json()))
        self.real = EnvVarDict.from_json(data)
        if 'deleted' in self.flags:
            self.flags.add('delete-then-reload')

    @precondition(lambda self: self.real is not None)
    @rule(k=st.sampled_from(KEYS))
    def bad_value(self, k):
        self._op('bad_value', k)
        try:
            self.real[k] = 1
        except TypeError:
            return
        self._fail('envvardict/type', 'non-string value accepted')

    @invariant()
    def agrees(self):
        if self.real is None:
            return
        last = self.history[-1][0] if self.history else '?'
        if dict(self.real) != self.model:
            self._fail('envvardict/' + last + '/current',
                       'current {!r} != model {!r}'.format(dict(self.real),
                                                           self.model))
        if dict(self.real.initial) != self.initial:
            self._fail('envvardict/' + last + '/initial',
                       'initial {!r} != {!r}'.format(self.real.initial,
                                                     self.initial))
        applied = apply_changes(self.real.initial, self.real.changes)
        if applied != self.model:
            self._fail('envvardict/' + last + '/changes',
                       'initial+changes = {!r} but current is {!r} (changes '
                       '{!r})'.format(applied, self.model,
                                      dict(self.real.changes)))
        for k, v in self.real.changes.items():
            if v is not None and not isinstance(v, str):
                self._fail('envvardict/' + last + '/changes-type',
                           'non-string change {!r}'.format(v))

    def teardown(self):
        rec = self._vf_rec
        if self.real is not None:
            ops = [h[0] for h in self.history]
            rec.case({'op:' + o for o in set(ops)},
                     nontrivial=(ops if 'delete-then-reload' in self.flags
                                 else None),
                     sample=self.history)


def _run_machine(rec, seed, budget, shard, nshards):
    run_machine(rec, EnvVarMachine, budget, 30, seed, shrink=True)


def replay_envvar(history, rec):
    from bfg9000.environment import EnvVarDict
    real = model = initial = None
    for h in history:
        op, args = h[0], h[1:]
        if op == 'create':
            real = EnvVarDict(args[0])
            initial = dict(args[0])
            model = dict(args[0])
        elif op == 'setitem':
            real[args[0]] = args[1]
            model[args[0]] = args[1]
        elif op == 'delitem':
            if args[0] in model:
                del real[args[0]]
                del model[args[0]]
        elif op == 'pop':
            real.pop(args[0], args[1])
            model.pop(args[0], args[1])
        elif op == 'popitem':
            k, v = real.popitem()
            del model[k]
        elif op == 'setdefault':
            real.setdefault(args[0], args[1])
            model.setdefault(args[0], args[1])
        elif op == 'update':
            d, how = args
            if how == 'kwargs':
                d = {k: v for k, v in d.items() if k.isidentifier()}
                real.update(**d)
            elif how == 'pairs':
                real.update(list(d.items()))
            else:
                real.update(d)
            model.update(d)
        elif op == 'ior':
            real |= args[0]
            model.update(args[0])
        elif op == 'clear':
            real.clear()
            model.clear()
        elif op == 'reset':
            real.reset()
            model = dict(initial)
        elif op == 'save_load':
            real = EnvVarDict.from_json(json.loads(json.dumps(
                real.to_json())))
        elif op == 'bad_value':
            continue
        if dict(real) != model:
            raise Violation('envvardict/' + op + '/current', 'current {!r} != '
                            'model {!r}'.format(dict(real), model),
                            {'history': history})
        applied = apply_changes(real.initial, real.changes)
        if applied != model:
            raise Violation('envvardict/' + op + '/changes', 'initial+changes '
                            '= {!r} but current is {!r}'.format(applied,
                                                                model),
                            {'history': history})


# --------------------------------------------------------------------------
# Environment.save / load round trip, and older formats

_dirs = st.sampled_from(['/usr/local', '/opt/my app', '/p/é', '/x/y/z',
                         '/usr'])


@st.composite
def env_cases(draw):
    roots = ['prefix', 'exec_prefix', 'bindir', 'libdir', 'includedir',
             'datadir', 'mandir']
    install = {}
    for r in roots:
        if draw(st.integers(0, 2)) == 0:
            install[r] = draw(_dirs) + draw(st.sampled_from(['', '/sub',
                                                             '/a b']))
            if draw(st.integers(0, 7)) == 0:
                install[r] = '/'        # the file-system root itself
    return {
        'srcdir': draw(st.sampled_from(['/src', '/home/u/my proj',
                                        '/s/é/p'])),
        'builddir': draw(st.sampled_from(['/bld', '/home/u/my proj/build',
                                          '/b/ü'])),
        'install': install,
        'shared': draw(st.booleans()), 'static': draw(st.booleans()),
        'compdb': draw(st.booleans()),
        'extra_args': draw(st.lists(st.sampled_from(
            ['--name=x', '--enable-foo', '--x-with-bar', 'a b', '--n=é']),
            max_size=3)),
        'toolchain': draw(st.one_of(st.none(), st.sampled_from(
            ['/tc/toolchain.bfg', '/home/u/my tc.bfg']))),
        'variables': draw(st.dictionaries(st.sampled_from(KEYS), VALS,
                                          max_size=5)),
        'changes': draw(st.lists(st.tuples(
            st.sampled_from(['set', 'del']), st.sampled_from(KEYS), VALS),
            max_size=4)),
        'backend': draw(st.sampled_from(['make', 'ninja'])),
        'version': draw(st.sampled_from([17, 17, 16, 15, 14, 13, 12])),
        'target': draw(st.sampled_from([None, None, None, 'winnt', 'darwin',
                                        ['linux', 'aarch64']])),
    }


def env_fields(env):
    return {
        'bfgdir': env.bfgdir.to_json(), 'backend': env.backend,
        'backend_version': str(env.backend_version),
        'host_platform': env.host_platform.to_json(),
        'target_platform': env.target_platform.to_json(),
        'srcdir': env.srcdir.to_json(), 'builddir': env.builddir.to_json(),
        'install_dirs': {k.name: (v.to_json() if v is not None else None)
                         for k, v in env.install_dirs.items()},
        'toolchain': (env.toolchain.path.to_json()
                      if env.toolchain.path is not None else None),
        'mopack': [i.to_json() for i in env.mopack],
        'library_mode': list(env.library_mode), 'compdb': env.compdb,
        'extra_args': env.extra_args,
        'variables': dict(env.variables),
        'initial': dict(env.variables.initial),
        'changes_applied': apply_changes(env.variables.initial,
                                         env.variables.changes),
    }


def down_convert(state, version, case):
    """Inverse of the upgrade chain in Environment.load, where the older
    format can express the configuration; returns None otherwise."""
    from bfg9000 import platforms
    data = copy.deepcopy(state['data'])
    if version <= 16:
        tp = platforms.target.from_json(data['target_platform'])
        from bfg9000.path import InstallRoot
        for i in ('datadir', 'mandir'):
            if data['install_dirs'][i] != \
                    tp.install_dirs[InstallRoot[i]].to_json():
                return None
            del data['install_dirs'][i]
    if version <= 15:
        if data['compdb'] is not True:
            return None
        del data['compdb']
    if version <= 14:
        if data['mopack'] != []:
            return None
        del data['mopack']
        v = data.pop('variables')
        data['initial_variables'] = v['initial']
        data['variables'] = v['current']
    if version <= 13:
        for i in ('host_platform', 'target_platform'):
            p = data[i]
            if p['arch'] != platform.machine():
                return None
            name = p['species']
            if platforms.platform_tuple(name) != (p['genus'], p['species']):
                return None
            data[i] = name
    if version <= 12:
        if data['initial_variables'] != data['variables']:
            return None
        del data['initial_variables']
        if data['toolchain'] != {'path': None}:
            return None
        del data['toolchain']
    return {'version': version, 'data': data}


def prop_env_roundtrip(rec):
    def prop(case):
        from bfg9000.environment import Environment, EnvVarDict
        from bfg9000.path import Path, Root, InstallRoot, abspath
        from bfg9000.backends import list_backends
        nontrivial = bool(case['install'] or case['toolchain'] or
                          case['changes'] or case['extra_args'] or
                          not case['compdb'] or case['target'])
        rec.case({'v{}'.format(case['version']),
                  'toolchain' if case['toolchain'] else 'no-toolchain',
                  'cross' if case['target'] else 'native'},
                 nontrivial=([case['version'], sorted(case['install']),
                              case['shared'], case['static'], case['compdb'],
                              len(case['extra_args']),
                              bool(case['toolchain']),
                              [c[0] for c in case['changes']],
                              str(case['target'])]
                             if nontrivial else None), sample=case)
        backend_version = list_backends()['make'].version()
        env = Environment(abspath(sandbox.BFGBIN), case['backend'],
                          backend_version, abspath(case['srcdir']),
                          abspath(case['builddir']))
        env.variables = EnvVarDict(case['variables'])
        if case['toolchain']:
            env.toolchain.path = abspath(case['toolchain'])
        if case['target']:
            # what the toolchain builtin target_platform() does
            from bfg9000 import platforms
            t = case['target']
            env.target_platform = (
                platforms.target.platform_info(t) if isinstance(t, str)
                else platforms.target.platform_info(*t))
        for op, k, v in case['changes']:
            if op == 'set':
                env.variables[k] = v
            else:
                env.variables.pop(k, None)
        env.finalize({InstallRoot[k]: abspath(v)
                      for k, v in case['install'].items()},
                     (case['shared'], case['static']), case['compdb'],
                     case['extra_args'])
        before = env_fields(env)
        with sandbox.scratch('c09') as tmp:
            env.save(tmp)
            fn = os.path.join(tmp, '.bfg_environ')
            with open(fn) as f:
                state = json.load(f)
            if case['version'] != 17:
                old = down_convert(state, case['version'], case)
                if old is None:
                    rec.classes['not-expressible-in-old-format'] += 1
                    return
                with open(fn, 'w') as f:
                    json.dump(old, f)
            loaded = Environment.load(tmp)
        after = env_fields(loaded)
        for k in before:
            if before[k] != after[k]:
                raise Violation(
                    'env/roundtrip/v{}/{}'.format(case['version'], k),
                    'field {} differs after save/load (format version {}): '
                    '{!r} -> {!r}'.format(k, case['version'], before[k],
                                          after[k]), case)
    return prop


def _run_env(rec, seed, budget, shard, nshards):
    run_hypothesis(rec, env_cases(), prop_env_roundtrip(rec), budget, seed)


# --------------------------------------------------------------------------
# (B) end-to-end

TC_STATEMENTS = [
    "environ['CFLAGS'] = environ.get('CFLAGS', '') + ' -DTC=1'",
    "environ['C09_ACC'] = environ.get('C09_ACC', 'base') + ':tc'",
    "environ['C09_NEW'] = 'new value'",
    "environ.pop('C09_GONE', None)",
    "environ.setdefault('C09_DEF', 'dflt')",
    "environ.update({'C09_U1': 'u1', 'CPPFLAGS': '-DU=2'})",
    "environ.update(C09_KW='kw')",
    "if 'C09_DEL' in environ: del environ['C09_DEL']",
    "compile_options('-O1 -DOPT=3', 'c')",
    "compile_options(['-O1', '-DLIST=a b'], 'c')",
    "compiler('gcc', 'c')",
    "link_options('-Wl,--as-needed', 'native')",
    "environ['LDFLAGS'] = '-Wl,-O1'",
    "environ['C09_ACC'] = environ.get('C09_ACC', '') + '+'",
    "install_dirs(prefix='/opt/from-tc', libdir='/opt/from-tc/lib64')",
    "install_dirs(bindir='/opt/tc bin')",
    # probes relative to the toolchain file's own directory (a file `tcprobe`
    # lies next to it and nowhere else)
    "environ['C09_PROBE'] = which(['./tcprobe', 'true'])",
    "compile_options('-DPROBE=' + which(['./tcprobe', 'true']), 'c')",
]

E1_VARS = {
    'CC': ['gcc', 'cc', 'clang'],
    'CFLAGS': ['-O2', '-g -DX=1', '-DSP="a b"', ''],
    'CPPFLAGS': ['-DCPP=1', '-I/nonexistent/inc'],
    'LDFLAGS': ['-Wl,--as-needed', ''],
    'LDLIBS': ['-lm'],
    'C09_ACC': ['start'],
    'C09_GONE': ['here'],
    'C09_DEL': ['x'],
    'C09_DEF': ['preset'],
    'C09_UNI': ['ü é 日本'],
    'UNRELATED': ['1', 'two words'],
    # read by helper processes bfg9000 starts (the compiler probes), not by
    # bfg9000 itself; @VENDOR@ is a header directory the project also names
    'C_INCLUDE_PATH': ['@VENDOR@', '/nonexistent/cinc'],
    # the build tool of the configured backend, as found at configure time
    'MAKE': ['make'],
}


@st.composite
def e2e_cases(draw):
    e1 = {}
    for k, vals in E1_VARS.items():
        if draw(st.integers(0, 2)) > 0:
            e1[k] = draw(st.sampled_from(vals))
    tc = draw(st.lists(st.sampled_from(TC_STATEMENTS), max_size=5))
    use_tc = bool(tc) and draw(st.integers(0, 3)) > 0
    opts = []
    if draw(st.booleans()):
        opts.append('--prefix=' + draw(st.sampled_from(['/opt/p', '/o/my p',
                                                        '/'])))
    if draw(st.booleans()):
        opts.append(draw(st.sampled_from(['--enable-static',
                                          '--disable-shared',
                                          '--enable-shared'])))
    if draw(st.integers(0, 3)) == 0:
        opts.append('--disable-compdb')
    user = []
    if draw(st.booleans()):
        user.append('--name=' + draw(st.sampled_from(['n1', 'a b', 'é'])))
    if draw(st.booleans()):
        user.append(draw(st.sampled_from(['--enable-feat', '--disable-feat',
                                          '--x-enable-feat'])))
    # perturbation of the ambient at regeneration time
    e2 = {}
    for k in E1_VARS:
        how = draw(st.sampled_from(['same', 'same', 'changed', 'removed',
                                    'added']))
        if how == 'same':
            if k in e1:
                e2[k] = e1[k]
        elif how == 'changed':
            e2[k] = draw(st.sampled_from(['/bin/false', '-DPERTURBED',
                                          'other', '-O0']))
        elif how == 'added':
            e2[k] = e1.get(k, 'added-later' if k != 'C_INCLUDE_PATH'
                           else '@VENDOR@')
    return {'e1': e1, 'tc': tc if use_tc else [], 'opts': opts, 'user': user,
            'e2': e2, 'backend': 'make',
            # a regeneration that fails part-way through the toolchain file
            'fault': draw(st.one_of(st.none(), st.integers(0, 5))),
            'cwd': draw(st.sampled_from(['src', 'bld', 'root', 'tmp'])),
            # later invocations go through another installed copy of the
            # launcher scripts than the configure did
            'altlauncher': draw(st.booleans()),
            'bldspelling': draw(st.sampled_from(['abs', 'rel', 'dotdot']))}


BUILD_BFG = """\
project('c09proj', version='1.0')
# (a script may change the variables for its own run; that is not part of the
# saved configuration)
env.variables['C09_SCRIPT'] = env.getvar('C09_SCRIPT', 'seen') + '+script'
import json
with open(env.builddir.append('argv.json').string(), 'w') as f:
    json.dump({'name': argv.name, 'feat': argv.feat}, f)
executable('prog', ['prog.c'], includes=[header_directory('@VENDOR@')])
lib = library('lib1', ['lib.c'])
install(lib)
command('show', cmd=['echo', 'hi'])
"""
OPTIONS_BFG = """\
argument('name', default='dflt')
argument('feat', action='enable', default=False)
"""


def model_toolchain(e1, statements):
    """The toolchain statements are ordinary dict operations: run them on a
    plain dict (the model of the variable store)."""
    from bfg9000.shell import posix as pshell
    environ = dict(e1)

    def compile_options(options, lang):
        if not isinstance(options, str):
            options = pshell.join(options)
        environ['CFLAGS'] = options

    def compiler(names, lang):
        environ['CC'] = names

    def link_options(options, format='native', mode='dynamic'):
        environ['LDFLAGS'] = options
    ns = {'environ': environ, 'compile_options': compile_options,
          'compiler': compiler, 'link_options': link_options,
          'install_dirs': lambda **kw: None,
          'which': lambda names, **kw: names[0]}
    for s in statements:
        exec(s, ns)
    return environ


def parse_env0(data):
    out = {}
    for item in data.split('\0'):
        if item:
            k, _, v = item.partition('=')
            out[k] = v
    return out


READS = {'CC', 'CFLAGS', 'CPPFLAGS', 'LDFLAGS', 'LDLIBS', 'C_INCLUDE_PATH',
         'MAKE'}


def prop_e2e(rec):
    def prop(case):
        differs = any(case['e1'].get(k) != case['e2'].get(k) for k in READS)
        labs = set()
        if case['tc']:
            labs.add('toolchain')
        if differs:
            labs.add('ambient-differs-in-read-var')
        if case.get('fault') is not None and case['tc']:
            labs.add('failed-regenerate-in-history')
        labs.add('cwd:' + case['cwd'])
        if case.get('altlauncher'):
            labs.add('other-launcher')
        labs.add('bld:' + case['bldspelling'])
        rec.case(labs, nontrivial=(
            [sorted(case['e1']), [s.split('(')[0].split('[')[0]
                                  for s in case['tc']],
             sorted(k for k in READS
                    if case['e1'].get(k) != case['e2'].get(k)),
             case['opts'], case['user'], case['cwd'], case['bldspelling']]
            if (differs or case['tc']) else None), sample=case)
        with sandbox.scratch('c09e') as tmp:
            src = os.path.join(tmp, 'top', 'src')
            bld = os.path.join(tmp, 'top', 'bld')
            os.makedirs(src)
            vendor = os.path.join(tmp, 'top', 'vendor inc')
            sandbox.write_file(os.path.join(vendor, 'vendor.h'), '/* v */\n')
            case = dict(case, e1={k: v.replace('@VENDOR@', vendor)
                                  for k, v in case['e1'].items()},
                        e2={k: v.replace('@VENDOR@', vendor)
                            for k, v in case['e2'].items()})
            sandbox.write_file(os.path.join(src, 'build.bfg'),
                               BUILD_BFG.replace('@VENDOR@', vendor))
            sandbox.write_file(os.path.join(src, 'options.bfg'), OPTIONS_BFG)
            sandbox.write_file(os.path.join(src, 'prog.c'),
                               'int main(void){return 0;}\n')
            sandbox.write_file(os.path.join(src, 'lib.c'),
                               'int f(void){return 1;}\n')
            extra = list(case['opts']) + list(case['user'])
            if case['tc']:
                tcf = os.path.join(tmp, 'top', 'tc.bfg')
                sandbox.write_file(tcf, '\n'.join(case['tc']) + '\n')
                sandbox.write_file(os.path.join(tmp, 'top', 'tcprobe'), '')
                extra.append('--toolchain=' + tcf)
            env1 = sandbox.base_env(os.path.join(tmp, 'home1'),
                                    extra=case['e1'])
            r = sandbox.configure(src, bld, env1, backend=case['backend'],
                                  extra=extra)
            if r.rc != 0:
                # a configuration that cannot be configured is outside the
                # property (e.g. CC=cc missing): not a verdict
                rec.classes['configure-failed'] += 1
                return
            files = ['Makefile', 'compile_commands.json', 'argv.json']
            before = {}
            for fn in files:
                p = os.path.join(bld, fn)
                if os.path.exists(p):
                    with open(p, 'rb') as f:
                        before[fn] = f.read()
            expected_current = model_toolchain(env1, case['tc'])

            env2 = sandbox.base_env(os.path.join(tmp, 'home2'),
                                    extra=case['e2'])
            cwd = {'src': src, 'bld': bld, 'root': '/',
                   'tmp': os.path.join(tmp, 'top')}[case['cwd']]
            if case['bldspelling'] == 'abs':
                bldarg = bld
            elif case['bldspelling'] == 'rel':
                bldarg = os.path.relpath(bld, cwd)
            else:
                bldarg = os.path.join(os.path.relpath(bld, cwd), '..', 'bld')

            def check_files(what):
                for fn in files:
                    p = os.path.join(bld, fn)
                    now = None
                    if os.path.exists(p):
                        with open(p, 'rb') as f:
                            now = f.read()
                    if now != before.get(fn):
                        import difflib
                        a = (before.get(fn) or b'').decode('utf-8',
                                                           'replace')
                        b = (now or b'').decode('utf-8', 'replace')
                        d = '\n'.join(list(difflib.unified_diff(
                            a.splitlines(), b.splitlines(), lineterm='',
                            n=0))[:12])
                        raise Violation(
                            'e2e/' + what + '/' + fn,
                            '{} differs from the one written at configure '
                            'time after {}:\n{}'.format(fn, what, d), case)

            launcher = sandbox.BFG
            if case.get('altlauncher'):
                import shutil
                alt = os.path.join(tmp, 'alt bin')
                shutil.copytree(os.path.dirname(sandbox.BFG), alt)
                launcher = os.path.join(alt, 'bfg9000')
            for i in (1, 2, 3):
                args = ['regenerate', bldarg]
                if i == 3:
                    # the way the build file itself regenerates: lazily,
                    # after an input became newer
                    args.insert(1, '--lazy')
                    t = sandbox.Clock(tmp).tick(tmp)
                    os.utime(os.path.join(src, 'build.bfg'), ns=(t, t))
                    if case['tc']:
                        os.utime(tcf, ns=(t, t))
                r = sandbox.run_bfg(args, cwd, env2, launcher=launcher)
                if r.rc != 0:
                    raise Violation('e2e/regenerate-failed', 'regenerate #{} '
                                    'exited {}: {}'.format(i, r.rc,
                                                           r.err[-800:]),
                                    case)
                check_files('regenerate#{}'.format(i))

            if case.get('fault') is not None and case['tc']:
                # the toolchain file raises after j statements; once it is
                # repaired nothing of the configuration may have changed
                j = case['fault'] % (len(case['tc']) + 1)
                sandbox.write_file(tcf, '\n'.join(
                    case['tc'][:j] + ["raise RuntimeError('toolchain fault')"]
                    + case['tc'][j:]) + '\n')
                r = sandbox.run_bfg(['regenerate', bldarg], cwd, env2)
                sandbox.write_file(tcf, '\n'.join(case['tc']) + '\n')
                if r.rc == 0:
                    rec.classes['faulty-toolchain-accepted'] += 1
                else:
                    rec.classes['failed-regenerate'] += 1
                    check_files('failed-regenerate')

            r = sandbox.run_bfg(['run', '-B', bldarg, '--', 'env', '-0'], cwd,
                                env2)
            if r.rc != 0:
                raise Violation('e2e/run-failed', r.err[-800:], case)
            got = parse_env0(r.out)
            if got != expected_current:
                diff = {k: (expected_current.get(k), got.get(k))
                        for k in set(got) | set(expected_current)
                        if got.get(k) != expected_current.get(k)}
                raise Violation('e2e/run-current', '`run` saw variables that '
                                'differ from the configured ones (expected, '
                                'got): {!r}'.format(diff), case)
            r = sandbox.run_bfg(['run', '-I', '-B', bldarg, '--', 'env',
                                 '-0'], cwd, env2)
            got = parse_env0(r.out)
            if r.rc != 0 or got != env1:
                diff = {k: (env1.get(k), got.get(k))
                        for k in set(got) | set(env1)
                        if got.get(k) != env1.get(k)}
                raise Violation('e2e/run-initial', '`run -I` saw variables '
                                'that differ from the initial ones: {!r}'
                                .format(diff), case)
            r = sandbox.run_bfg(['env', bldarg], cwd, env2)
            lines = dict(l.partition('=')[::2] for l in r.out.splitlines()
                         if '=' in l)
            if r.rc != 0 or lines != expected_current:
                diff = {k: (expected_current.get(k), lines.get(k))
                        for k in set(lines) | set(expected_current)
                        if lines.get(k) != expected_current.get(k)}
                raise Violation('e2e/env', '`env` output differs (expected, '
                                'got): {!r}'.format(diff), case)
            check_files('env+run')
            if case.get('fault') is not None and case['tc']:
                r = sandbox.run_bfg(['regenerate', bldarg], cwd, env2)
                if r.rc != 0:
                    raise Violation('e2e/regenerate-failed', 'regenerate '
                                    'after a failed one exited {}: {}'.format(
                                        r.rc, r.err[-800:]), case)
                check_files('regenerate-after-failed')
    return prop


def _run_e2e(rec, seed, budget, shard, nshards):
    run_hypothesis(rec, e2e_cases(), prop_e2e(rec), budget, seed,
                   shrink=(os.environ.get('VERIF_TIER') == 'thorough'))


def tasks(tier):
    return [
        Task('envvardict', _run_machine, quick=16 * 60, thorough=16 * 5000),
        Task('env_roundtrip', _run_env, quick=16 * 150,
             thorough=16 * 10000),
        Task('e2e', _run_e2e, quick=16 * 5, thorough=16 * 150),
    ]


def replay(task, case, rec):
    if task == 'envvardict':
        replay_envvar(case['history'], rec)
    elif task == 'env_roundtrip':
        prop_env_roundtrip(rec)(case)
    elif task == 'e2e':
        prop_e2e(rec)(case)
    else:
        raise HarnessError('unknown task ' + task)
