"""C11 — find_files returns exactly the files the documented glob semantics
select.

Oracle: a naive matcher written from the documentation (doc/reference/
builtins.md, find_files): enumerate every entry of a real directory tree with
os.walk, match component lists recursively (** = zero or more components),
apply exclusion to an entry and everything below an excluded directory.
The real builtin is driven in-process on a real BuildContext.
"""
import os

from hypothesis import strategies as st

from ..runner import Task, Violation, HarnessError, run_hypothesis
from .. import sandbox

ID = 'C11'
LEVEL = 'exploration'
TECHNIQUE = ('property-based testing (Hypothesis): differential against a '
             'naive documented-semantics glob matcher over generated real '
             'directory trees and patterns')
RULE = ('Real directory trees (<= 7 directories, <= 14 files, depth <= 4; '
        'names with dots, spaces, glob metacharacters, hidden, backup and '
        'lock names, platform names; optional symlinked directory) x lists of '
        '1-3 patterns (incl. lists over sibling directories one of whose names '
        'is a string prefix of the other; existing literal prefix + components with * ? [..] '
        '[!..] and one or more ** runs, optional trailing /) x type x extra x '
        'exclude x filter (none / filter_by_platform / generated predicate) x '
        'dist x cache.  Non-trivial: a pattern has ** or there are >= 2 '
        'include patterns or an exclude matches a directory, and the tree has '
        '>= 1 selected and >= 1 unselected entry below a walked base; '
        'distinct = pattern shapes x type x option shape x tree size class.')
LEVEL_TEXT = ('Generated-input search with a reference model: every generated '
              '(tree, pattern list, options) case compares the set returned by '
              'the real find_files/find_paths (first call, cached call, '
              'cache=False) with a naive matcher, and PathGlob.match with the '
              'same matcher on every path including the soundness of "never" '
              'pruning.')
LEVEL_NOTE = ('Trusted: the naive matcher as a reading of the documentation '
              '(* matches leading dots, as the doc says "0 or more of any '
              'character"); entries below an excluded *base* directory and '
              'which pruned-away entries count as "extra" are left '
              'unconstrained (documentation silent).')
ASSUMPTIONS = [
    'default excludes are modelled as documented under project(): '
    "['.*#', '*~', '#*#']",
    'type= applies to include, extra and exclude globs alike (as documented: '
    'the type is inferred by the glob only if not specified)',
]

DIRNAMES = ['src', 'lib', 'inc', 'a', 'b', 'sub', 'a b', 'x.d', 'winnt',
            'linux', '.git', 'lib~', 'd[1]', 'posix', 's*r', 'libfoo',
            'src-old', 'ab']
FILENAMES = ['a.c', 'b.c', 'ab.c', 'a.h', 'b.h', 'x.txt', '.hid', 'bak~',
             '#x#', '.x#', 'a b.c', '[z].c', 'z.c', 'a*', 'q?', 'a', 'b',
             'foo_windows.c', 'foo_linux.c', 'foo_posix.c', 'windows.c',
             'README', 'c.cpp', 'lib', 'src']
GLOBCOMPS = ['*', '*', '*.c', '*.h', '?', 'a*', '*b*', '[ab]', '[ab].c',
             '[!a]*', '*.[ch]', '??.c', '[a-c].h', 's*', '*.*', '[!.]*',
             'l?b', '*~', 'a*a', 'li*ib', 'ab*b.c', 's*src', 'a*.c']
SIMPLE = ['*.h', '*.txt', 'b*', 'lib', 'lib/', 'sub/', '?', '[ab].c', '.hid',
          'inc/', 'a*', '*.c', 'src/', '*', '*/', 'a b/', 'x.d/', '*~',
          '[!a]*']


@st.composite
def trees(draw):
    dirs = [()]
    nd = draw(st.integers(0, 7))
    for _ in range(nd):
        parent = draw(st.sampled_from(dirs))
        if len(parent) >= 4:
            continue
        name = draw(st.sampled_from(DIRNAMES))
        d = parent + (name,)
        if d not in dirs:
            dirs.append(d)
    entries = {d: 'd' for d in dirs if d}
    nf = draw(st.integers(0, 14))
    for _ in range(nf):
        parent = draw(st.sampled_from(dirs))
        name = draw(st.sampled_from(FILENAMES))
        p = parent + (name,)
        if p not in entries:
            entries[p] = 'f'
    if draw(st.integers(0, 19)) == 0:
        # an entry whose name reads like a home directory
        parent = draw(st.sampled_from(dirs))
        name = draw(st.sampled_from(['~', '~root']))
        if parent + (name,) not in entries:
            if draw(st.booleans()):
                entries[parent + (name,)] = 'd'
                entries[parent + (name, 'a.c')] = 'f'
            else:
                entries[parent + (name,)] = 'f'
    link = None
    if len(dirs) > 2 and draw(st.integers(0, 5)) == 0:
        target = draw(st.sampled_from(dirs[1:]))
        parent = draw(st.sampled_from(dirs))
        p = parent + ('lnk',)
        # a link to an ancestor-or-self is fine: walks never follow links
        if p not in entries:
            link = ['/'.join(p), '/'.join(target)]
    return {'entries': sorted(['/'.join(k), v] for k, v in entries.items()),
            'link': link}


def _globify(draw, comp):
    k = draw(st.integers(0, 5))
    if k == 0 and not any(ch in comp for ch in '*?['):
        return comp                      # literal
    if k == 1:
        return '*'
    if k == 2 and len(comp) > 1:
        return comp[0].replace('[', '?').replace('*', '?') + '*'
    if k == 3 and '.' in comp:
        return '*' + comp[comp.rindex('.'):].replace('[', '?').replace(
            '*', '?').replace(']', '?')
    if k == 4:
        return '?' * len(comp)
    return '*'


@st.composite
def derived_patterns(draw, tree):
    """A pattern built around an existing entry, so that it fits tightly:
    every component is kept, globbed, and ** runs are inserted in the gaps."""
    ents = [e for e in tree['entries']]
    if not ents:
        return draw(patterns(tree, derived=False))
    path, kind = draw(st.sampled_from(ents))
    comps = path.split('/')
    nlit = draw(st.integers(0, max(0, len(comps) - 1)))
    out = []
    for i, c in enumerate(comps):
        if i < nlit and not any(ch in c for ch in '*?['):
            out.append(c)
            continue
        if draw(st.integers(0, 1)) == 0 and (not out or out[-1] != '**'):
            out.append('**')
        out.append(_globify(draw, c) if i >= nlit else c)
    if draw(st.integers(0, 2)) == 0 and out[-1] != '**':
        out.append('**')
        out.append(draw(st.sampled_from(['*', '*.c', '*.h'])))
    if not any(any(ch in c for ch in '*?[') for c in out):
        out[-1] = '*'
    first = next(i for i, c in enumerate(out)
                 if any(ch in c for ch in '*?['))
    if any(any(ch in c for ch in '*?[') for c in comps[:first]):
        return draw(patterns(tree, derived=False))
    pat = '/'.join(out)
    if kind == 'd' and draw(st.integers(0, 2)) > 0:
        pat += '/'
    return pat


@st.composite
def patterns(draw, tree, derived=True):
    if derived and draw(st.integers(0, 1)) == 0:
        return draw(derived_patterns(tree))
    dirs = [''] + [e[0] for e in tree['entries'] if e[1] == 'd']
    base = draw(st.sampled_from(dirs))
    comps = base.split('/') if base else []
    if comps and draw(st.integers(0, 3)) == 0:
        comps = comps[:draw(st.integers(0, len(comps)))]
    # literal base components must not look like globs
    if any(c for c in comps if any(ch in c for ch in '*?[')):
        comps = []
    n = draw(st.integers(1, 6))
    glob = []
    for i in range(n):
        k = draw(st.integers(0, 9))
        if k <= 2:
            glob.append('**')
        elif k <= 7 or not glob:
            glob.append(draw(st.sampled_from(GLOBCOMPS)))
        else:
            lit = draw(st.sampled_from(DIRNAMES[:8] + FILENAMES[:6]))
            glob.append(lit)
    if not any(any(ch in c for ch in '*?[') for c in glob):
        glob[0] = '*'
    # the first component after the base must be a glob, otherwise it would
    # belong to the literal prefix (which must exist)
    if not any(ch in glob[0] for ch in '*?['):
        glob.insert(0, draw(st.sampled_from(['**', '*'])))
    pat = '/'.join(comps + glob)
    if draw(st.integers(0, 3)) == 0:
        pat += '/'
    return pat


@st.composite
def cases(draw):
    tree = draw(trees())
    npat = draw(st.sampled_from([1, 1, 1, 2, 2, 3]))
    pats = [draw(patterns(tree)) for _ in range(npat)]
    if draw(st.integers(0, 5)) == 0:
        # several patterns whose literal bases are siblings, one name being a
        # string prefix of the other
        a, b = draw(st.sampled_from([('lib', 'libfoo'), ('src', 'src-old'),
                                     ('a', 'ab'), ('a', 'a b'),
                                     ('sub', 'sub/a'), ('inc', 'inc2')]))
        dirs = [''] + [e[0] for e in tree['entries'] if e[1] == 'd' and
                       not any(ch in e[0] for ch in '*?[')]
        parent = draw(st.sampled_from(dirs))
        ents = dict((k, v) for k, v in tree['entries'])
        for d in (a, b):
            comps = (parent.split('/') if parent else []) + d.split('/')
            for i in range(1, len(comps) + 1):
                ents['/'.join(comps[:i])] = 'd'    # (a literal base exists)
            for f in draw(st.lists(st.sampled_from(FILENAMES[:8]),
                                   min_size=1, max_size=3, unique=True)):
                ents.setdefault('/'.join(comps + [f]), 'f')
        ents = {k: v for k, v in ents.items()
                if not any(k.startswith(f + '/') for f, t in ents.items()
                           if t == 'f')}
        tree = dict(tree, entries=sorted([k, v] for k, v in ents.items()))
        pre = (parent + '/') if parent else ''
        tails = ['*', '*.c', '**/*.c', '*.h', '**']
        pats = [pre + a + '/' + draw(st.sampled_from(tails)),
                pre + b + '/' + draw(st.sampled_from(tails))] + pats[:1]
        pats = draw(st.permutations(pats))
    if tree['link'] and draw(st.booleans()):
        # a pattern whose literal prefix is the symlinked directory itself
        pats = list(pats) + [tree['link'][0] + '/' + draw(st.sampled_from(
            ['*', '*.c', '**/*.c', '**', '*/']))]
    anydir = any(p.endswith('/') for p in pats)
    typ = draw(st.sampled_from([None, None, 'f', 'd', '*']))
    extra = draw(st.lists(st.sampled_from(SIMPLE), max_size=2, unique=True))
    exclude = draw(st.lists(st.sampled_from(SIMPLE), max_size=2, unique=True))
    if typ == 'f':
        # documented rejection: type 'f' with a directory glob
        if anydir:
            pats = [p.rstrip('/') for p in pats]
        extra = [e for e in extra if not e.endswith('/')]
        exclude = [e for e in exclude if not e.endswith('/')]
    filt = draw(st.sampled_from([None, None, 'platform', 'table']))
    table = {}
    if filt == 'table':
        keys = draw(st.lists(st.sampled_from(DIRNAMES + FILENAMES),
                             max_size=4, unique=True))
        for k in keys:
            table[k] = draw(st.sampled_from(
                ['not_now', 'exclude', 'exclude_recursive', 'include']))
    return {'tree': tree, 'patterns': pats, 'type': typ, 'extra': extra,
            'exclude': exclude, 'filter': filt, 'table': table,
            'dist': draw(st.booleans()), 'cache': draw(st.booleans()),
            'single_str': draw(st.booleans())}


# --------------------------------------------------------------------------
# naive reference matcher (documentation semantics)

def comp_match(pat, name):
    """Match one path component against a simple glob."""
    def parse(pat):
        toks = []
        i = 0
        while i < len(pat):
            c = pat[i]
            if c == '*':
                toks.append(('*',))
            elif c == '?':
                toks.append(('?',))
            elif c == '[':
                j = pat.find(']', i + 2 if pat[i + 1:i + 2] in ('!', ']')
                             else i + 1)
                if j < 0:
                    toks.append(('c', '['))
                else:
                    body = pat[i + 1:j]
                    neg = body.startswith('!')
                    if neg:
                        body = body[1:]
                    chars = set()
                    k = 0
                    while k < len(body):
                        if k + 2 < len(body) and body[k + 1] == '-':
                            for o in range(ord(body[k]), ord(body[k + 2]) + 1):
                                chars.add(chr(o))
                            k += 3
                        else:
                            chars.add(body[k])
                            k += 1
                    toks.append(('[', neg, chars))
                    i = j
            else:
                toks.append(('c', c))
            i += 1
        return toks

    toks = parse(pat)

    def m(ti, ni):
        if ti == len(toks):
            return ni == len(name)
        t = toks[ti]
        if t[0] == '*':
            return any(m(ti + 1, k) for k in range(ni, len(name) + 1))
        if ni >= len(name):
            return False
        ch = name[ni]
        if t[0] == '?':
            return m(ti + 1, ni + 1)
        if t[0] == '[':
            return ((ch in t[2]) != t[1]) and m(ti + 1, ni + 1)
        return ch == t[1] and m(ti + 1, ni + 1)
    return m(0, 0)


def is_glob(c):
    return any(ch in c for ch in '*?[')


def path_match(pcomps, ecomps):
    if not pcomps:
        return not ecomps
    if pcomps[0] == '**':
        return any(path_match(pcomps[1:], ecomps[k:])
                   for k in range(len(ecomps) + 1))
    if not ecomps:
        return False
    ok = (comp_match(pcomps[0], ecomps[0]) if is_glob(pcomps[0])
          else pcomps[0] == ecomps[0])
    return ok and path_match(pcomps[1:], ecomps[1:])


def type_ok(typ, pattern_isdir, isdir):
    if typ is None:
        return isdir == pattern_isdir
    if typ == 'f':
        return not isdir
    if typ == 'd':
        return isdir
    return True


def simple_match(glob, typ, name, isdir):
    gdir = glob.endswith('/')
    g = glob.rstrip('/')
    return comp_match(g, name) and type_ok(typ, gdir, isdir)


def split_pattern(p):
    isdir = p.endswith('/')
    comps = [c for c in p.split('/') if c]
    first = next(i for i, c in enumerate(comps) if is_glob(c))
    return comps, comps[:first], isdir


PLATFORM_WORDS = None


def platform_not_now(suffix):
    import re
    from bfg9000.platforms import known_platforms
    mine = {'linux', 'posix'}
    sub = '|'.join(re.escape(i) for i in known_platforms if i not in mine)
    return bool(re.search(r'(^|/|_)(' + sub + r')(\.[^\.]+$|$|/)', suffix))


RANK = {'include': 0, 'not_now': 1, 'exclude': 2, 'exclude_recursive': 3}


def model(case):
    """Returns (found set, must_extra set, dontcare set, all entries)."""
    entries = {(): True}
    for p, k in case['tree']['entries']:
        entries[tuple(p.split('/'))] = (k == 'd')
    mirrored = {}
    if case['tree']['link']:
        L = tuple(case['tree']['link'][0].split('/'))
        T = tuple(case['tree']['link'][1].split('/'))
        entries[L] = True
        # a walk that *starts* at (or below) the link sees the target's
        # contents under the link's name; a walk from above does not follow it
        for comps, isdir in list(entries.items()):
            if comps[:len(T)] == T and len(comps) > len(T):
                mirrored[L + comps[len(T):]] = isdir
    pats = [split_pattern(p) for p in case['patterns']]
    bases = sorted({tuple(b) for _, b, _ in pats})
    # minimal covering set of bases
    ubases = [b for b in bases
              if not any(o != b and b[:len(o)] == o for o in bases)]
    typ = case['type']
    excl = ['.*#', '*~', '#*#'] + case['exclude']

    def filt(comps, isdir):
        if case['filter'] == 'platform':
            return 'not_now' if platform_not_now('/'.join(comps)) \
                else 'include'
        if case['filter'] == 'table' and comps:
            return case['table'].get(comps[-1], 'include')
        return 'include'

    def excluded(comps, isdir):
        # the basename of the root directory itself is the empty string
        name = comps[-1] if comps else ''
        return any(simple_match(g, typ, name, isdir) for g in excl)

    def recursive_cut(comps, isdir):
        return excluded(comps, isdir) or (
            isdir and filt(comps, isdir) == 'exclude_recursive')

    found, must_extra, dontcare = set(), set(), set()
    both = list(entries.items()) + [(c, d) for c, d in mirrored.items()
                                    if c not in entries]
    for comps, isdir in both:
        cover = [b for b in ubases if comps[:len(b)] == b]
        if comps in mirrored and comps not in entries:
            cover = [b for b in cover if b[:len(L)] == L]
        if not cover:
            continue
        b = cover[0]
        # base itself cut -> documentation silent about what is below
        if comps != b and recursive_cut(b, True):
            dontcare.add(comps)
            continue
        hidden = False
        for k in range(len(b) + 1, len(comps)):
            anc = comps[:k]
            if recursive_cut(anc, True):
                hidden = True
                break
        if hidden:
            continue
        if excluded(comps, isdir):
            continue
        inc = any(path_match(pc, list(comps)) and type_ok(typ, pdir, isdir)
                  for pc, _, pdir in pats)
        f = filt(comps, isdir)
        if inc:
            if f == 'include':
                found.add(comps)
            elif f == 'not_now' and len(comps) == len(b) + 1:
                must_extra.add(comps)
        elif comps and any(simple_match(g, typ, comps[-1], isdir)
                           for g in case['extra']):
            if RANK[f] <= 1 and len(comps) == len(b) + 1:
                must_extra.add(comps)
    entries = dict(entries)
    for c, d in mirrored.items():
        entries.setdefault(c, d)
    return found, must_extra, dontcare, entries


# --------------------------------------------------------------------------

def build_tree(root, tree):
    os.makedirs(root)
    for p, k in tree['entries']:
        full = os.path.join(root, p)
        if k == 'd':
            os.makedirs(full, exist_ok=True)
    for p, k in tree['entries']:
        if k == 'f':
            full = os.path.join(root, p)
            os.makedirs(os.path.dirname(full), exist_ok=True)
            with open(full, 'w'):
                pass
    if tree['link']:
        lp, target = tree['link']
        full = os.path.join(root, lp)
        os.symlink(os.path.join(root, target), full)


_inited = []


_env_cache = {}


def make_context(src, bld, reuse_env=False):
    """A real BuildContext on (src, bld).  reuse_env keeps one Environment
    per process for the pair (tool detection is the expensive part)."""
    from bfg9000 import builtins
    from bfg9000.builtins import builtin
    from bfg9000.build_inputs import BuildInputs
    from bfg9000.environment import Environment
    from bfg9000.path import Path, Root, InstallRoot, abspath
    if not _inited:
        builtins.init()
        _inited.append(1)
    env = _env_cache.get((src, bld)) if reuse_env else None
    if env is None:
        env = Environment(abspath(sandbox.BFGBIN), 'make', None, abspath(src),
                          abspath(bld))
        env.finalize({InstallRoot.prefix: abspath('/usr/local')},
                     (True, False), False)
        if reuse_env:
            _env_cache[(src, bld)] = env
    build = BuildInputs(env, Path('build.bfg', Root.srcdir))
    ctx = builtin.BuildContext(env, build, None)
    ctx.path_stack.append(builtin.BuildContext.PathEntry(build.bfgpath))
    ctx['project']('p')
    return env, build, ctx


def shape(case):
    def pshape(p):
        out = []
        for c in p.split('/'):
            if c == '**':
                out.append('S')
            elif c == '':
                out.append('/')
            elif is_glob(c):
                out.append('g')
            else:
                out.append('l')
        return ''.join(out)
    return [sorted(pshape(p) for p in case['patterns']), case['type'],
            len(case['extra']), sorted(case['exclude']), case['filter'],
            case['cache'], min(len(case['tree']['entries']) // 4, 4)]


KF_TILDE = 'find/tilde-entry'


def has_tilde_entry(case):
    return any(c != os.path.expanduser(c) for p, _ in case['tree']['entries']
               for c in p.split('/'))


def prop_find(rec):
    inner = _prop_find(rec)

    def prop(case):
        if not has_tilde_entry(case):
            return inner(case)
        if rec.is_open(KF_TILDE):
            rec.excluded()
            return
        old_home = os.environ.get('HOME')
        try:
            # (keep a stray walk of "the home directory" inside a scratch dir)
            with sandbox.scratch('c11h') as home:
                sandbox.write_file(os.path.join(home, 'intruder.c'), 'x\n')
                os.environ['HOME'] = home
                try:
                    inner(case)
                finally:
                    if old_home is None:
                        os.environ.pop('HOME', None)
                    else:
                        os.environ['HOME'] = old_home
        except Violation as v:
            raise Violation(KF_TILDE, 'a directory entry named like a home '
                            'directory (`~`, `~user`) is replaced by that '
                            'home directory: ' + v.message, case)
    return prop


def _prop_find(rec):
    def prop(case):
        from bfg9000.builtins.find import FindResult
        found, must_extra, dontcare, entries = model(case)
        pats = [split_pattern(p) for p in case['patterns']]
        typ = case['type']
        excl_dir = any(
            isdir and comps and any(
                simple_match(g, typ, comps[-1], True) for g in case['exclude'])
            for comps, isdir in entries.items())
        labs = set()
        if any('**' in p for p in case['patterns']):
            labs.add('starstar')
        if sum(p.count('**') for p in case['patterns']) >= 2:
            labs.add('multi-starstar')
        if len(case['patterns']) > 1:
            labs.add('multi-pattern')
        if excl_dir:
            labs.add('exclude-hits-dir')
        if case['filter']:
            labs.add('filter:' + case['filter'])
        if case['tree']['link']:
            labs.add('symlink')
        if found:
            labs.add('has-match')
        if not case['cache']:
            labs.add('cache=False')
        bases = {tuple(b) for _, b, _ in pats}
        under = [c for c in entries
                 if any(c[:len(b)] == b for b in bases)]
        nontriv = (('starstar' in labs or 'multi-pattern' in labs or excl_dir)
                   and found and len(under) > len(found))
        rec.case(labs, nontrivial=shape(case) if nontriv else None,
                 sample=case)

        with sandbox.scratch('c11') as tmp:
            src = os.path.join(tmp, 'src')
            bld = os.path.join(tmp, 'bld')
            build_tree(src, case['tree'])
            os.makedirs(bld)
            env, build, ctx = make_context(src, bld)
            filter_fn = None
            if case['filter'] == 'platform':
                filter_fn = ctx['filter_by_platform']
            elif case['filter'] == 'table':
                def make_filter(table):
                    def filter_fn(path):
                        r = table.get(path.basename(), 'include')
                        if r == 'exclude_recursive' and not path.directory:
                            r = 'exclude'
                        return FindResult[r]
                    return filter_fn
                filter_fn = make_filter(case['table'])
                # model: exclude_recursive only applies to directories
            pat = case['patterns']
            if len(pat) == 1 and case['single_str']:
                pat = pat[0]
            kwargs = dict(type=case['type'], extra=case['extra'] or None,
                          exclude=case['exclude'] or None, filter=filter_fn,
                          dist=case['dist'], cache=case['cache'])

            def as_set(paths, what):
                out = set()
                for p in paths:
                    if p.root.name != 'srcdir':
                        raise Violation('find/root', '{}: {!r} is not in the '
                                        'source directory'.format(what, p),
                                        case)
                    comps = tuple(p.split())
                    full = os.path.join(src, *comps)
                    if not os.path.lexists(full):
                        raise Violation('find/nonexistent', '{}: {!r} does '
                                        'not exist'.format(what, p), case)
                    if bool(p.directory) != os.path.isdir(full):
                        raise Violation('find/dirflag', '{}: {!r} has the '
                                        'wrong directory flag'.format(what, p),
                                        case)
                    if comps in out:
                        raise Violation('find/duplicate', '{}: {!r} returned '
                                        'twice'.format(what, p), case)
                    out.add(comps)
                return out

            def compare(got, what):
                missing = {c for c in found - got if c not in dontcare}
                extra_ = {c for c in got - found if c not in dontcare}
                if missing or extra_:
                    raise Violation(
                        'find/' + what + ('-missing' if missing else
                                          '-spurious'),
                        '{}: patterns {!r}: missing {!r}, spurious {!r}'
                        .format(what, case['patterns'],
                                sorted('/'.join(c) for c in missing),
                                sorted('/'.join(c) for c in extra_)), case)

            def check_dist(when):
                # the source distribution
                srcs = set()
                for f in build.sources():
                    if f.path.root.name == 'srcdir':
                        srcs.add(tuple(f.path.split()))
                if case['dist']:
                    need = (found | must_extra) - dontcare
                    miss = {c for c in need if c not in srcs}
                    if miss:
                        raise Violation(
                            'find/dist-missing', 'not part of the source '
                            'distribution ({}): {!r}'.format(
                                when, sorted('/'.join(c) for c in miss)),
                            case)
                else:
                    leaked = {c for c in srcs
                              if c != ('build.bfg',) and c in entries}
                    if leaked:
                        raise Violation(
                            'find/dist-false', 'dist=False but in the '
                            'distribution ({}): {!r}'.format(
                                when, sorted('/'.join(c) for c in leaked)),
                            case)

            files = ctx['find_files'](pat, **kwargs)
            first = as_set([f.path for f in files], 'find_files')
            compare(first, 'result')
            check_dist('after the first call, cache={}'.format(case['cache']))
            second = as_set(ctx['find_paths'](pat, **kwargs), 'find_paths')
            if second != first:
                raise Violation('find/cache-differs', 'second call (cache={})'
                                ' returned a different set'.format(
                                    case['cache']), case)
            # cache=False after cache=True and vice versa
            kwargs2 = dict(kwargs, cache=not case['cache'])
            third = as_set(ctx['find_paths'](pat, **kwargs2), 'find_paths')
            if third != first:
                raise Violation('find/cache-flag', 'cache={} returned a '
                                'different set'.format(not case['cache']),
                                case)
            check_dist('after all calls')
            if case['filter'] == 'table':
                # a second predicate made by the same factory (same name,
                # different behaviour) must not be served from the first
                # one's cache entry
                class _All(dict):
                    def get(self, k, d=None):
                        return 'exclude'
                none = as_set(ctx['find_paths'](pat, **dict(
                    kwargs, filter=make_filter(_All()), cache=True)),
                    'find_paths')
                if none:
                    raise Violation('find/cache-confuses-filters', 'a filter '
                                    'that excludes everything returned {!r} '
                                    '(results of the other filter function?)'
                                    .format(sorted('/'.join(c)
                                                   for c in none)), case)
            # extras are never returned and every cached extra is sound
            cache = build['find_cache']
            for flt, ent in cache.items():
                for p in ent.extra:
                    comps = tuple(p.split())
                    if comps in first:
                        raise Violation('find/extra-returned', '{!r} is both '
                                        'found and extra'.format(p), case)
                    isdir = entries.get(comps)
                    if isdir is None:
                        raise Violation('find/extra-nonexistent', repr(p),
                                        case)
    return prop


# --------------------------------------------------------------------------
# PathGlob.match directly (no file system): yes/no agreement and soundness of
# "never" (no descendant of a never-directory matches).

@st.composite
def glob_cases(draw):
    tree = draw(trees())
    return {'tree': tree, 'pattern': draw(patterns(tree)),
            'type': draw(st.sampled_from([None, 'f', 'd', '*']))}


def prop_glob(rec):
    def prop(case):
        from bfg9000.glob import PathGlob
        from bfg9000.path import Path, Root
        pat = case['pattern']
        typ = case['type']
        if typ == 'f' and pat.endswith('/'):
            pat = pat.rstrip('/')
        comps, base, pdir = split_pattern(pat)
        g = PathGlob(Path(pat, Root.srcdir), typ)
        entries = {(): True}
        for p, k in case['tree']['entries']:
            if any(c != os.path.expanduser(c) for c in p.split('/')):
                continue    # (the harness builds these Paths from strings)
            entries[tuple(p.split('/'))] = (k == 'd')
        labs = set()
        if comps.count('**') >= 2:
            labs.add('multi-starstar')
        elif '**' in comps:
            labs.add('starstar')
        nyes = nnever = 0
        res = {}
        for c, isdir in entries.items():
            path = Path('/'.join(c) + ('/' if isdir and c else ''),
                        Root.srcdir, directory=isdir)
            for skip in (False, True):
                if skip and c[:len(base)] != tuple(base):
                    continue    # skip_base presumes the walk started at base
                r = g.match(path, skip)
                want = path_match(comps, list(c)) and type_ok(typ, pdir,
                                                              isdir)
                if bool(r) != want:
                    raise Violation('glob/match', 'PathGlob({!r}, {!r}).match'
                                    '({!r}, skip_base={}) = {}, reference {}'
                                    .format(pat, typ, '/'.join(c), skip,
                                            r.name, want), case)
                res[(c, skip)] = r.name
                nyes += want
        for (c, skip), r in res.items():
            if r == 'never' and entries[c]:
                nnever += 1
                for d, disdir in entries.items():
                    if len(d) > len(c) and d[:len(c)] == c and \
                            path_match(comps, list(d)) and \
                            type_ok(typ, pdir, disdir):
                        raise Violation('glob/never-unsound', 'PathGlob({!r})'
                                        ' says never for directory {!r} but '
                                        '{!r} below it matches'.format(
                                            pat, '/'.join(c), '/'.join(d)),
                                        case)
        if nyes:
            labs.add('has-match')
        if nnever:
            labs.add('has-never')
        rec.case(labs, nontrivial=([''.join(
            'S' if x == '**' else 'g' if is_glob(x) else 'l' for x in comps),
            typ, min(nyes, 3), min(nnever, 3)]
            if ('**' in comps and nyes and len(entries) > nyes) else None),
            sample=case)
    return prop


PROPS = {'find': (prop_find, cases()), 'glob': (prop_glob, glob_cases())}


def _run(rec, seed, budget, shard, nshards, group):
    pf, strat = PROPS[group]
    run_hypothesis(rec, strat, pf(rec), budget, seed)


def selftest():
    checks = [('*.c', 'a.c', True), ('*.c', '.c', True), ('?', 'ab', False),
              ('[ab]', 'a', True), ('[!ab]', 'a', False), ('[!ab]', 'c', True),
              ('*', '.hid', True), ('[a-c].h', 'b.h', True),
              ('a*', 'a*', True), ('*.[ch]', 'x.h', True),
              ('*.[ch]', 'x.o', False)]
    for p, n, want in checks:
        if comp_match(p, n) != want:
            raise HarnessError('naive matcher wrong on {!r} {!r}'.format(p, n))
    assert path_match(['**', '*.c'], ['a.c'])
    assert path_match(['**', '*.c'], ['x', 'y', 'a.c'])
    assert not path_match(['*', '*.c'], ['a.c'])
    assert path_match(['src', '**'], ['src'])


def tasks(tier):
    return [
        Task('find', _run, quick=16 * 500, thorough=16 * 40000, group='find'),
        Task('glob', _run, quick=16 * 800, thorough=16 * 60000, group='glob'),
    ]


def replay(task, case, rec):
    PROPS[task][0](rec)(case)
