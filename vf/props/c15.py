"""C15 — install/uninstall place and remove exactly the declared files.

Generated sets of installables and install-directory configurations; the real
install tool (doppel) and patchelf run; the tree below DESTDIR is compared with
the tree computed from the model."""
import os
import posixpath
import re
import stat
import subprocess

from hypothesis import strategies as st

from ..runner import Task, Violation, HarnessError, run_hypothesis
from .. import sandbox

ID = 'C15'
LEVEL = 'exploration'
TECHNIQUE = ('property-based testing (Hypothesis): model-based comparison of '
             'the installed file tree (real doppel/patchelf) over generated '
             'installable sets, prefixes and DESTDIR values; install/'
             'uninstall symmetry')
RULE = ('Installables: executables, shared / static / versioned shared '
        'libraries with run-time dependency chains, header files, a header '
        'directory with include pattern and sub-directories, man pages '
        '(plain and compressed, from sub-directories), a '
        'data file, a generated .pc file; optional directory= arguments; all '
        'combinations of --prefix/--exec-prefix/--bindir/--libdir/'
        '--includedir/--datadir/--mandir (paths with spaces); DESTDIR with '
        'spaces at install time (make) or configure time (make, ninja); '
        'optionally a forced or touch-triggered regeneration before the '
        'build.  '
        'Non-trivial: >= 3 kinds installed, an implicit run-time dependency '
        'and a non-default directory or DESTDIR; distinct = installed kinds + '
        'directory options + DESTDIR mode + backend.')
LEVEL_TEXT = ('Generated-input search against a reference model of the '
              'documented install locations: the file tree below DESTDIR must '
              'equal the expected tree exactly (files, symlinks, modes), '
              'source and build trees stay untouched, installed binaries find '
              'their libraries, uninstall removes every installed file.')
LEVEL_NOTE = ('Trusted: doppel 0.x and patchelf 0.14 as installed, readelf; '
              'install-time DESTDIR is only demanded of Make (the Ninja '
              'language has no run-time override).')
ASSUMPTIONS = ['ELF/Linux, gcc']


@st.composite
def cases(draw):
    backend = draw(st.sampled_from(['make', 'make', 'ninja']))
    dirs = {}
    for k, pool in (('prefix', ['pfx', 'my pfx']),
                    ('exec_prefix', ['epfx']),
                    ('bindir', ['custom bin', 'b']),
                    ('libdir', ['lib64', 'my lib']),
                    ('includedir', ['inc']),
                    ('datadir', ['sh are']),
                    ('mandir', ['manpages'])):
        if draw(st.integers(0, 2 if k != 'prefix' else 0)) == 0:
            dirs[k] = draw(st.sampled_from(pool))
    destdir = draw(st.sampled_from([None, None, 'stage', 'my stage dir']))
    dest_when = 'install' if backend == 'make' and draw(st.booleans()) \
        else 'configure'
    items = draw(st.lists(st.sampled_from(
        ['prog', 'prog2', 'sa', 'sb', 'st', 'sv', 'hdr', 'hdrdir', 'hdrdir1',
         'man', 'manz',
         'data', 'pc']), min_size=1, max_size=7, unique=True))
    opts = {}
    for it in items:
        if it in ('prog', 'sa', 'st', 'hdr', 'hdrdir', 'hdrdir1', 'man',
                  'manz') and \
                draw(st.integers(0, 3)) == 0:
            opts[it] = draw(st.sampled_from(['sub', 'a/b', 'x y']))
    return {'backend': backend, 'dirs': dirs, 'destdir': destdir,
            'dest_when': dest_when, 'items': sorted(items), 'opts': opts,
            # the build files are regenerated from the saved configuration
            # before anything is built or installed
            'regen': draw(st.sampled_from([None, None, 'forced', 'touch',
                                           'touch-install'])),
            # (stw: a static library that itself needs the shared sa)
            'prog_libs': draw(st.sampled_from([['sb'], ['sa', 'st'],
                                               ['sv', 'sb'], ['st'],
                                               ['sb', 'sv', 'st'], ['stw'],
                                               ['stw', 'sv']]))}


SCRIPT_HEAD = """\
project('c15', version='1.0')
sa = shared_library('sa', ['sa.c'])
sb = shared_library('sb', ['sb.c'], libs=[sa])
st = static_library('st', ['st.c'])
sv = shared_library('sv', ['sv.c'], version='1.2.3', soversion='1')
stw = static_library('stw', ['stw.c'], libs=[sa])
prog = executable('prog', ['prog.c'], libs=[{prog_libs}])
prog2 = executable('tools/prog2', ['prog2.c'], libs=[sa])
hdr = header_file('api.h')
hdrdir = header_directory('include', include='**/*.h')
hdrdir1 = header_directory('compat', include='**/*.h')
man = man_page('doc/prog.1', compress=False)
manz = man_page('doc/sub/tool.1')
data = generic_file('data/blob.bin')
"""


def render(case, src):
    vals = {'sa': 1, 'sb': 2 + 1, 'st': 4, 'sv': 8, 'stw': 16 + 1}
    sandbox.write_file(os.path.join(src, 'stw.c'),
                       'int f_sa(void);\nint f_stw(void){return 16+f_sa();}\n')
    sandbox.write_file(os.path.join(src, 'sa.c'),
                       'int f_sa(void){return 1;}\n')
    sandbox.write_file(os.path.join(src, 'sb.c'),
                       'int f_sa(void);\nint f_sb(void){return 2+f_sa();}\n')
    sandbox.write_file(os.path.join(src, 'st.c'),
                       'int f_st(void){return 4;}\n')
    sandbox.write_file(os.path.join(src, 'sv.c'),
                       'int f_sv(void){return 8;}\n')
    calls = ''.join(' + f_{}()'.format(l) for l in case['prog_libs'])
    decls = ''.join('int f_{}(void);\n'.format(l) for l in case['prog_libs'])
    sandbox.write_file(os.path.join(src, 'prog.c'),
                       '#include <stdio.h>\n' + decls +
                       'int main(void){printf("%d\\n", 100' + calls +
                       ');return 0;}\n')
    sandbox.write_file(os.path.join(src, 'prog2.c'),
                       '#include <stdio.h>\nint f_sa(void);\n'
                       'int main(void){printf("%d\\n", 200 + f_sa());'
                       'return 0;}\n')
    sandbox.write_file(os.path.join(src, 'api.h'), '/* api */\n')
    sandbox.write_file(os.path.join(src, 'include', 'a.h'), '/* a */\n')
    sandbox.write_file(os.path.join(src, 'include', 'sub', 'b.h'), '/* b */\n')
    sandbox.write_file(os.path.join(src, 'include', 'skip.txt'), 'no\n')
    # (a header directory whose pattern matches exactly one file)
    sandbox.write_file(os.path.join(src, 'compat', 'v1', 'old.h'), '/* o */\n')
    sandbox.write_file(os.path.join(src, 'compat', 'notes.txt'), 'no\n')
    sandbox.write_file(os.path.join(src, 'doc', 'prog.1'), '.TH PROG 1\n')
    sandbox.write_file(os.path.join(src, 'doc', 'sub', 'tool.1'),
                       '.TH TOOL 1\n')
    sandbox.write_file(os.path.join(src, 'data', 'blob.bin'), 'blob\n')
    L = [SCRIPT_HEAD.format(prog_libs=', '.join(case['prog_libs']))]
    for it in case['items']:
        if it == 'pc':
            L.append("pkg_config('c15pkg', version='1.0', libs=[sa])")
            continue
        d = case['opts'].get(it)
        if it == 'data':
            L.append("install(data, directory=Path('c15', "
                     "InstallRoot.datadir))")
        elif d:
            L.append('install({}, directory={!r})'.format(it, d))
        else:
            L.append('install({})'.format(it))
    sandbox.write_file(os.path.join(src, 'build.bfg'), '\n'.join(L) + '\n')
    return 100 + sum(vals[l] for l in case['prog_libs'])


def install_dirs(case, root):
    """Absolute install directories as documented."""
    d = case['dirs']
    prefix = os.path.join(root, d['prefix'])
    exec_prefix = os.path.join(root, d['exec_prefix']) \
        if 'exec_prefix' in d else prefix
    return {
        'prefix': prefix, 'exec_prefix': exec_prefix,
        'bindir': os.path.join(root, d['bindir']) if 'bindir' in d
        else os.path.join(exec_prefix, 'bin'),
        'libdir': os.path.join(root, d['libdir']) if 'libdir' in d
        else os.path.join(exec_prefix, 'lib'),
        'includedir': os.path.join(root, d['includedir'])
        if 'includedir' in d else os.path.join(prefix, 'include'),
        'datadir': os.path.join(root, d['datadir']) if 'datadir' in d
        else os.path.join(prefix, 'share'),
        'mandir': os.path.join(root, d['mandir']) if 'mandir' in d
        else os.path.join(os.path.join(root, d['datadir']) if 'datadir' in d
                          else os.path.join(prefix, 'share'), 'man'),
    }


def expected_tree(case, idirs):
    """{absolute installed path: ('f', mode) | ('l', target)}"""
    out = {}
    opts = case['opts']

    def put(root, sub, name, kind):
        p = os.path.join(idirs[root], sub or '', name)
        out[os.path.normpath(p)] = kind

    def shared(name, sub=None):
        put('libdir', sub, 'lib{}.so'.format(name), ('f', 0o755))

    def sv(sub=None, dev_link=True):
        put('libdir', sub, 'libsv.so.1.2.3', ('f', 0o755))
        put('libdir', sub, 'libsv.so.1', ('l', 'libsv.so.1.2.3'))
        if dev_link:
            # only an explicit install() includes the link-time name; as a
            # run-time dependency the soname is all that is needed
            put('libdir', sub, 'libsv.so', ('l', 'libsv.so.1'))
    runtime = {'sa': [], 'sb': ['sa'], 'sv': [], 'st': [], 'stw': ['sa']}

    def deps_of(libs):
        seen = []
        stack = list(libs)
        while stack:
            l = stack.pop()
            if l in seen or l == 'st':
                continue
            if l == 'stw':          # static: only what it needs is installed
                stack.extend(runtime[l])
                continue
            seen.append(l)
            stack.extend(runtime[l])
        return seen
    # a run-time dependency is installed with the directory= of the item that
    # pulls it in; two different locations for one file are a configure error
    lib_subs = {}

    def want_lib(l, sub):
        lib_subs.setdefault(l, set()).add(sub)
    for it in case['items']:
        sub = opts.get(it)
        if it == 'prog':
            put('bindir', sub, 'prog', ('f', 0o755))
            for l in deps_of(case['prog_libs']):
                want_lib(l, sub)
        elif it == 'prog2':
            put('bindir', sub, 'tools/prog2', ('f', 0o755))
            want_lib('sa', sub)
        elif it in ('sa', 'sb', 'sv'):
            for l in deps_of([it]):
                want_lib(l, sub)
        elif it == 'st':
            put('libdir', sub, 'libst.a', ('f', 0o644))
        elif it == 'hdr':
            put('includedir', sub, 'api.h', ('f', 0o644))
        elif it == 'hdrdir':
            put('includedir', sub, 'a.h', ('f', 0o644))
            put('includedir', sub, 'sub/b.h', ('f', 0o644))
        elif it == 'hdrdir1':
            put('includedir', sub, 'v1/old.h', ('f', 0o644))
        elif it == 'man':
            put('mandir', sub, 'man1/prog.1', ('f', 0o644))
        elif it == 'manz':
            # compressed by default (gzip is present): <mandir>/man1/<name>.gz
            put('mandir', sub, 'man1/tool.1.gz', ('f', 0o644))
        elif it == 'data':
            put('datadir', 'c15', 'blob.bin', ('f', 0o644))
        elif it == 'pc':
            put('libdir', None, 'pkgconfig/c15pkg.pc', ('f', 0o644))
            want_lib('sa', None)
    for l, subs in lib_subs.items():
        if len(subs) > 1:
            return None             # conflicting locations: must be rejected
        sub = next(iter(subs))
        if l == 'sv':
            sv(sub, dev_link='sv' in case['items'])
        else:
            shared(l, sub)
    return out


def actual_tree(root):
    out = {}
    for dp, dn, fn in os.walk(root):
        for n in fn + [d for d in dn if os.path.islink(os.path.join(dp, d))]:
            p = os.path.join(dp, n)
            if os.path.islink(p):
                out[p] = ('l', os.readlink(p))
            else:
                out[p] = ('f', stat.S_IMODE(os.lstat(p).st_mode))
    return out


def prop_install(rec):
    def prop(case):
        kinds = set(case['items'])
        implicit = ('prog' in kinds or 'prog2' in kinds or 'sb' in kinds or
                    'pc' in kinds)
        labs = {case['backend'], 'destdir:' + (
            case['dest_when'] if case['destdir'] else 'none')}
        labs |= {'item:' + i for i in kinds}
        labs |= {'dir:' + k for k in case['dirs']}
        if case.get('regen'):
            labs.add('regenerated:' + case['regen'])
        rec.case(labs, nontrivial=(
            [sorted(kinds), sorted(case['opts'].items()),
             sorted(case['dirs']), case['destdir'], case['dest_when'],
             case['backend'], case['prog_libs']]
            if len(kinds) >= 3 and implicit and
            (case['opts'] or case['destdir'] or len(case['dirs']) > 1)
            else None), sample=case)
        with sandbox.scratch('c15') as tmp:
            tmp = os.path.realpath(tmp)
            src = os.path.join(tmp, 'src')
            bld = os.path.join(tmp, 'bld')
            root = os.path.join(tmp, 'root')
            os.makedirs(src)
            want_out = render(case, src)
            idirs = install_dirs(case, root)
            conf = ['--{}={}'.format(k.replace('_', '-'),
                                     os.path.join(root, v))
                    for k, v in case['dirs'].items()]
            dest = os.path.join(tmp, case['destdir']) if case['destdir'] \
                else ''
            envx = {}
            if dest and case['dest_when'] == 'configure':
                envx['DESTDIR'] = dest
            env = sandbox.base_env(os.path.join(tmp, 'home'), extra=envx)
            r = sandbox.configure(src, bld, env, backend=case['backend'],
                                  extra=conf)
            exp = expected_tree(case, idirs)
            if exp is None:
                if r.rc == 0:
                    raise Violation('install/conflict-accepted', 'one file '
                                    'is to be installed to two locations but '
                                    'configure succeeded', case)
                rec.classes['conflicting-locations-rejected'] += 1
                return
            if r.rc != 0:
                raise Violation('install/configure-failed',
                                r.err.strip()[-700:], case)
            if case.get('regen') == 'forced':
                g = sandbox.run_bfg(['regenerate', bld], tmp, env)
                if g.rc != 0:
                    raise Violation('install/regenerate-failed',
                                    g.err.strip()[-700:], case)
            elif case.get('regen') == 'touch':
                t = sandbox.Clock(tmp).tick(tmp)
                os.utime(os.path.join(src, 'build.bfg'), ns=(t, t))
            b = sandbox.run_backend(case['backend'], bld, env, ['all'])
            if b.rc != 0:
                raise HarnessError('build failed: ' + (b.err + b.out)[-600:])
            if case.get('regen') == 'touch-install':
                # the build files regenerate themselves inside the very
                # `make install [DESTDIR=...]` invocation
                t = sandbox.Clock(tmp).tick(tmp)
                os.utime(os.path.join(src, 'build.bfg'), ns=(t, t))
            before_src = sandbox.snapshot(src, content=True)
            before_bld = sandbox.snapshot(bld)
            extra = []
            if dest and case['dest_when'] == 'install':
                extra = ['DESTDIR=' + dest]
            benv = sandbox.base_env(os.path.join(tmp, 'home'))
            i = sandbox.run_backend(case['backend'], bld, benv, ['install'],
                                    extra=extra)
            if i.rc != 0:
                raise Violation('install/install-failed', 'install exited '
                                '{}: {}'.format(i.rc, (i.err + i.out).strip()
                                                [-700:]), case)
            if sandbox.snapshot(src, content=True) != before_src:
                raise Violation('install/touched-srcdir', 'install changed '
                                'the source directory', case)
            after_bld = sandbox.snapshot(bld)
            changed = sorted(k for k in set(before_bld) | set(after_bld)
                             if before_bld.get(k) != after_bld.get(k) and
                             not k.startswith('.ninja'))
            if changed and case.get('regen') != 'touch-install':
                raise Violation('install/touched-builddir', 'install changed '
                                'the build directory: {}'.format(changed[:8]),
                                case)
            want = {(dest + k): v for k, v in exp.items()}
            scan_root = dest if dest else root
            got = actual_tree(scan_root) if os.path.isdir(scan_root) else {}
            missing = sorted(set(want) - set(got))
            spurious = sorted(set(got) - set(want))
            if missing or spurious:
                raise Violation(
                    'install/tree/' + ('missing' if missing else 'spurious'),
                    'installed tree differs: missing {} spurious {}'.format(
                        [os.path.relpath(m, tmp) for m in missing],
                        [os.path.relpath(m, tmp) for m in spurious]), case)
            for k, v in want.items():
                if got[k] != v:
                    raise Violation('install/mode-or-link', '{}: installed as '
                                    '{}, expected {}'.format(
                                        os.path.relpath(k, tmp), got[k], v),
                                    case)
            # run-time search paths point at the installed library directory
            for k in want:
                base = os.path.basename(k)
                if want[k][0] != 'f' or not (base.startswith('prog') or
                                             '.so' in base):
                    continue
                d = subprocess.run(['readelf', '-d', k],
                                   stdout=subprocess.PIPE,
                                   stderr=subprocess.DEVNULL)
                text = d.stdout.decode()
                needs_project = re.findall(
                    r'\(NEEDED\).*\[(lib(?:sa|sb|sv)\.so[^\]]*)\]', text)
                m = re.search(r'\((?:RUNPATH|RPATH)\).*\[(.*)\]', text)
                rp = m.group(1).split(':') if m else []
                if any('$ORIGIN' in c or c.startswith(bld) for c in rp):
                    raise Violation('install/rpath-not-rewritten', '{} still '
                                    'has the build-tree run path {}'.format(
                                        os.path.relpath(k, tmp), rp), case)
                if needs_project:
                    libdirs = {os.path.dirname(p)[len(dest):]
                               for p in want
                               if os.path.basename(p).split('.so')[0] + '.so'
                               in [n.split('.so')[0] + '.so'
                                   for n in needs_project]}
                    if not libdirs <= set(rp):
                        raise Violation('install/rpath-missing', '{} needs {} '
                                        'installed in {} but its run path is '
                                        '{}'.format(os.path.relpath(k, tmp),
                                                    needs_project,
                                                    sorted(libdirs), rp),
                                        case)
            if not dest and 'prog' in kinds:
                p = os.path.join(idirs['bindir'],
                                 case['opts'].get('prog', ''), 'prog')
                out = subprocess.run([p], env={}, cwd='/',
                                     stdout=subprocess.PIPE,
                                     stderr=subprocess.PIPE)
                if out.returncode != 0 or \
                        out.stdout.decode().strip() != str(want_out):
                    raise Violation('install/installed-prog-fails', 'installed'
                                    ' prog exited {} printing {!r}; {}'.format(
                                        out.returncode, out.stdout.decode(),
                                        out.stderr.decode()[-300:]), case)
            u = sandbox.run_backend(case['backend'], bld, benv, ['uninstall'],
                                    extra=extra)
            if u.rc != 0:
                raise Violation('install/uninstall-failed',
                                (u.err + u.out).strip()[-600:], case)
            left = actual_tree(scan_root) if os.path.isdir(scan_root) else {}
            if left:
                raise Violation('install/uninstall-leftover', 'uninstall left '
                                '{}'.format([os.path.relpath(m, tmp)
                                             for m in sorted(left)]), case)
            if dest and case['dest_when'] == 'install':
                # the staging directory was a property of that one
                # invocation: a plain install now goes to the real prefix
                i2 = sandbox.run_backend(case['backend'], bld, benv,
                                         ['install'])
                got2 = actual_tree(root) if os.path.isdir(root) else {}
                if i2.rc != 0 or set(got2) != set(exp):
                    raise Violation(
                        'install/destdir-sticks', 'after `install DESTDIR=...`'
                        ' a plain `install` (exit {}) put {} under the '
                        'prefix, expected {}; staging dir now holds {}'.format(
                            i2.rc, sorted(os.path.relpath(m, tmp)
                                          for m in got2)[:6],
                            sorted(os.path.relpath(m, tmp)
                                   for m in exp)[:6],
                            sorted(os.path.relpath(m, tmp) for m in (
                                actual_tree(dest) if os.path.isdir(dest)
                                else {}))[:6]), case)
                u2 = sandbox.run_backend(case['backend'], bld, benv,
                                         ['uninstall'])
                left2 = actual_tree(root) if os.path.isdir(root) else {}
                if u2.rc != 0 or left2:
                    raise Violation('install/uninstall-leftover', 'plain '
                                    'uninstall (exit {}) left {}'.format(
                                        u2.rc, [os.path.relpath(m, tmp)
                                                for m in sorted(left2)]),
                                    case)
    return prop


def _run(rec, seed, budget, shard, nshards):
    run_hypothesis(rec, cases(), prop_install(rec), budget, seed,
                   shrink=(os.environ.get('VERIF_TIER') == 'thorough'))


def tasks(tier):
    return [Task('install', _run, quick=16 * 4, thorough=16 * 80)]


def replay(task, case, rec):
    prop_install(rec)(case)
