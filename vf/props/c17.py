"""C17 — Generated pkg-config files give consumers the declared flags and
requirements.

(A) in-process: simplify_specifiers / Requirement / RequirementSet against a
    pointwise membership oracle over a complete set of sample versions.
(B) end-to-end: generated pkg_config() descriptions read back by the real
    pkg-config (see c17b in this module).
"""
import os

from hypothesis import strategies as st

from ..runner import Task, Violation, HarnessError, run_hypothesis

ID = 'C17'
LEVEL = 'exploration'
TECHNIQUE = ('property-based testing (Hypothesis): pointwise-equivalence '
             'oracle for specifier simplification; differential against the '
             'real pkg-config on generated package descriptions')
RULE = ('(A) specifier sets of 1-6 specifiers (== != < <= > >=) over the '
        'version lattice {1,2,3,9,10}.{0..3} (with equal spellings 1 / 1.0 / '
        '1.0.0), evaluated on a complete sample: every mentioned version, a '
        'point between every two consecutive lattice versions, one below and '
        'one above all; non-trivial = at least two specifiers share a version '
        'or the set is unsatisfiable; distinct = sorted (operator, version) '
        'list.  (B) generated pkg_config() descriptions, see per_task.')
LEVEL_TEXT = ('Generated-input search: the simplified specifier set must '
              'agree with the conjunction of the original specifiers on a '
              'sample that contains a representative of every interval the '
              'boundaries cut the version order into, and an unsatisfiable '
              'set must be rejected; generated .pc files are read back with '
              'the real pkg-config.')
LEVEL_NOTE = ('Trusted: verspec.loose Version ordering and single-Specifier '
              'membership; pkgconf 1.8.1 as "the real pkg-config".  '
              'Over-rejection of a satisfiable set is not flagged.')
ASSUMPTIONS = [
    'versions are dotted numeric (verspec loose and pkg-config order them '
    'alike there)',
    'over-rejection of a satisfiable specifier set by simplify_specifiers is '
    'allowed (pkg-config cannot express everything)',
]

OPS = ['==', '!=', '<', '<=', '>', '>=']
LATTICE = ['{}.{}'.format(x, y) for x in (1, 2, 3, 9, 10)
           for y in (0, 1, 2, 3)]
SPELL = {'1.0': ['1.0', '1', '1.0.0'], '2.0': ['2.0', '2', '2.0.0'],
         '3.0': ['3.0', '3.0.0']}


@st.composite
def spec_lists(draw, max_size=6):
    n = draw(st.integers(1, max_size))
    # a small pool of versions so that boundaries coincide
    pool = draw(st.lists(st.sampled_from(LATTICE), min_size=1, max_size=3,
                         unique=True))
    out = []
    for _ in range(n):
        v = draw(st.sampled_from(pool))
        if v in SPELL and draw(st.integers(0, 4)) == 0:
            v = draw(st.sampled_from(SPELL[v]))
        out.append([draw(st.sampled_from(OPS)), v])
    return out


def sample_points(specs):
    pts = {'0.5', '99.9'}
    for v in LATTICE:
        pts.add(v)
        pts.add(v + '.0.5')
    for _, v in specs:
        pts.add(v)
    return sorted(pts)


def member(specs, point):
    from verspec.loose import Specifier, Version
    p = Version(point)
    return all(p in Specifier(op + v) for op, v in specs)


def spec_key(specs):
    return sorted((op, v) for op, v in specs)


def classify_specs(specs):
    ops = sorted({op for op, _ in specs})
    vs = [v for _, v in specs]
    from verspec.loose import Version
    same = len({Version(v) for v in vs}) < len(vs)
    return ops, same


def prop_simplify(rec):
    from verspec.loose import SpecifierSet, Version
    from bfg9000.versioning import simplify_specifiers

    def prop(specs):
        pts = sample_points(specs)
        truth = {p: member(specs, p) for p in pts}
        sat = any(truth.values())
        ops, same = classify_specs(specs)
        labs = {'sat' if sat else 'unsat', 'n={}'.format(len(specs))}
        if same:
            labs.add('shared-version')
        rec.case(labs, nontrivial=(spec_key(specs) if (same or not sat)
                                   else None), sample=specs)
        s = SpecifierSet(','.join(op + v for op, v in specs))
        try:
            r = simplify_specifiers(s)
        except ValueError:
            rec.classes['rejected-sat' if sat else 'rejected-unsat'] += 1
            return
        if not sat:
            raise Violation(
                'simplify/unsat-accepted/' + '+'.join(
                    sorted({op for op, _ in specs})),
                'unsatisfiable {!r} simplified to {!r} instead of being '
                'rejected'.format(str(s), str(r)), specs)
        for p in pts:
            got = Version(p) in r
            if got != truth[p]:
                raise Violation(
                    'simplify/not-equivalent',
                    '{!r} simplified to {!r}: version {} is {} by the '
                    'original but {} by the result'.format(
                        str(s), str(r), p,
                        'accepted' if truth[p] else 'rejected',
                        'accepted' if got else 'rejected'), specs)
    return prop


@st.composite
def req_cases(draw):
    names = ['dep', 'other', 'third']
    reqs = []
    for _ in range(draw(st.integers(1, 5))):
        reqs.append({'name': draw(st.sampled_from(names)),
                     'specs': draw(st.one_of(st.just([]),
                                             spec_lists(max_size=3)))})
    return reqs


def prop_reqset(rec):
    from verspec.loose import Version
    from bfg9000.builtins.pkg_config import Requirement, RequirementSet

    def prop(reqs):
        allspecs = [s for r in reqs for s in r['specs']]
        rec.case({'reqs={}'.format(len(reqs))},
                 nontrivial=([[r['name'], spec_key(r['specs'])]
                              for r in reqs]
                             if len({r['name'] for r in reqs}) < len(reqs)
                             else None), sample=reqs)
        rs = RequirementSet()
        for r in reqs:
            rs.add(Requirement(r['name'], ','.join(
                op + v for op, v in r['specs']) or None))
        by_name = {}
        for r in reqs:
            by_name.setdefault(r['name'], []).extend(r['specs'])
        pts = sample_points(allspecs)
        any_unsat = any(not any(member(sp, p) for p in pts)
                        for sp in by_name.values())
        try:
            simple = rs.split()
        except ValueError:
            return
        if any_unsat:
            raise Violation('reqset/unsat-accepted', 'an unsatisfiable '
                            'requirement was emitted: {!r}'.format(simple),
                            reqs)
        got = {}
        for sr in simple:
            got.setdefault(sr.name, []).append(sr.version)
        if sorted(got) != sorted(by_name):
            raise Violation('reqset/names', 'names {!r} != {!r}'.format(
                sorted(got), sorted(by_name)), reqs)
        if [sr.name for sr in simple] != sorted(sr.name for sr in simple):
            raise Violation('reqset/order', 'split() not sorted by name',
                            reqs)
        for name, specs in by_name.items():
            for p in pts:
                want = member(specs, p)
                have = all(v is None or Version(p) in v for v in got[name])
                if want != have:
                    raise Violation('reqset/not-equivalent', '{}: version {} '
                                    'accepted={} by the script, {} by the '
                                    'emitted requirements {!r}'.format(
                                        name, p, want, have, got[name]), reqs)
    return prop


A_PROPS = {
    'simplify': (prop_simplify, spec_lists()),
    'reqset': (prop_reqset, req_cases()),
}


def _run_a(rec, seed, budget, shard, nshards, group):
    pf, strat = A_PROPS[group]
    run_hypothesis(rec, strat, pf(rec), budget, seed)


def tasks(tier):
    return [
        Task('simplify', _run_a, quick=16 * 1500, thorough=16 * 100000,
             group='simplify'),
        Task('reqset', _run_a, quick=16 * 500, thorough=16 * 30000,
             group='reqset'),
    ]


def replay(task, case, rec):
    if task in A_PROPS:
        A_PROPS[task][0](rec)(case)
    else:
        raise HarnessError('unknown task ' + task)
