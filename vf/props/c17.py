"""C17 — Generated pkg-config files give consumers the declared flags and
requirements.

(A) in-process: simplify_specifiers / Requirement / RequirementSet against a
    pointwise membership oracle over a complete set of sample versions.
(B) end-to-end: generated pkg_config() descriptions read back by the real
    pkg-config (see c17b in this module).
"""
import os
import posixpath

from hypothesis import strategies as st

from ..runner import Task, Violation, HarnessError, run_hypothesis

ID = 'C17'
LEVEL = 'exploration'
TECHNIQUE = ('property-based testing (Hypothesis): pointwise-equivalence '
             'oracle for specifier simplification; differential against the '
             'real pkg-config on generated package descriptions')
RULE = ('(A) specifier sets of 1-6 specifiers (== != < <= > >=) over the '
        'version lattice {1,2,3,9,10}.{0..3} (with equal spellings 1 / 1.0 / '
        '1.0.0), evaluated on a complete sample: every mentioned version, a '
        'point between every two consecutive lattice versions, one below and '
        'one above all; non-trivial = at least two specifiers share a version '
        'or the set is unsatisfiable; distinct = sorted (operator, version) '
        'list.  (B) generated pkg_config() descriptions, see per_task.')
LEVEL_TEXT = ('Generated-input search: the simplified specifier set must '
              'agree with the conjunction of the original specifiers on a '
              'sample that contains a representative of every interval the '
              'boundaries cut the version order into, and an unsatisfiable '
              'set must be rejected; generated .pc files are read back with '
              'the real pkg-config.')
LEVEL_NOTE = ('Trusted: verspec.loose Version ordering and single-Specifier '
              'membership; pkgconf 1.8.1 as "the real pkg-config".  '
              'Over-rejection of a satisfiable set is not flagged.')
ASSUMPTIONS = [
    'versions are dotted numeric (verspec loose and pkg-config order them '
    'alike there)',
    'over-rejection of a satisfiable specifier set by simplify_specifiers is '
    'allowed (pkg-config cannot express everything)',
]

OPS = ['==', '!=', '<', '<=', '>', '>=']
LATTICE = ['{}.{}'.format(x, y) for x in (1, 2, 3, 9, 10)
           for y in (0, 1, 2, 3)]
SPELL = {'1.0': ['1.0', '1', '1.0.0'], '2.0': ['2.0', '2', '2.0.0'],
         '3.0': ['3.0', '3.0.0']}


@st.composite
def spec_lists(draw, max_size=6, spellings=True):
    n = draw(st.integers(1, max_size))
    # a small pool of versions so that boundaries coincide
    pool = draw(st.lists(st.sampled_from(LATTICE), min_size=1, max_size=3,
                         unique=True))
    out = []
    for _ in range(n):
        v = draw(st.sampled_from(pool))
        if spellings and v in SPELL and draw(st.integers(0, 4)) == 0:
            v = draw(st.sampled_from(SPELL[v]))
        out.append([draw(st.sampled_from(OPS)), v])
    return out


def sample_points(specs):
    pts = {'0.5', '99.9'}
    for v in LATTICE:
        pts.add(v)
        pts.add(v + '.0.5')
    for _, v in specs:
        pts.add(v)
    return sorted(pts)


def member(specs, point):
    from verspec.loose import Specifier, Version
    p = Version(point)
    return all(p in Specifier(op + v) for op, v in specs)


def spec_key(specs):
    return sorted((op, v) for op, v in specs)


def classify_specs(specs):
    ops = sorted({op for op, _ in specs})
    vs = [v for _, v in specs]
    from verspec.loose import Version
    same = len({Version(v) for v in vs}) < len(vs)
    return ops, same


def prop_simplify(rec):
    from verspec.loose import SpecifierSet, Version
    from bfg9000.versioning import simplify_specifiers

    def prop(specs):
        pts = sample_points(specs)
        truth = {p: member(specs, p) for p in pts}
        sat = any(truth.values())
        ops, same = classify_specs(specs)
        labs = {'sat' if sat else 'unsat', 'n={}'.format(len(specs))}
        if same:
            labs.add('shared-version')
        rec.case(labs, nontrivial=(spec_key(specs) if (same or not sat)
                                   else None), sample=specs)
        s = SpecifierSet(','.join(op + v for op, v in specs))
        try:
            r = simplify_specifiers(s)
        except ValueError:
            rec.classes['rejected-sat' if sat else 'rejected-unsat'] += 1
            return
        if not sat:
            raise Violation(
                'simplify/unsat-accepted/' + '+'.join(
                    sorted({op for op, _ in specs})),
                'unsatisfiable {!r} simplified to {!r} instead of being '
                'rejected'.format(str(s), str(r)), specs)
        for p in pts:
            got = Version(p) in r
            if got != truth[p]:
                raise Violation(
                    'simplify/not-equivalent',
                    '{!r} simplified to {!r}: version {} is {} by the '
                    'original but {} by the result'.format(
                        str(s), str(r), p,
                        'accepted' if truth[p] else 'rejected',
                        'accepted' if got else 'rejected'), specs)
    return prop


@st.composite
def req_cases(draw):
    names = ['dep', 'other', 'third']
    reqs = []
    for _ in range(draw(st.integers(1, 5))):
        reqs.append({'name': draw(st.sampled_from(names)),
                     'specs': draw(st.one_of(st.just([]),
                                             spec_lists(max_size=3)))})
    return reqs


def prop_reqset(rec):
    from verspec.loose import Version
    from bfg9000.builtins.pkg_config import Requirement, RequirementSet

    def prop(reqs):
        allspecs = [s for r in reqs for s in r['specs']]
        rec.case({'reqs={}'.format(len(reqs))},
                 nontrivial=([[r['name'], spec_key(r['specs'])]
                              for r in reqs]
                             if len({r['name'] for r in reqs}) < len(reqs)
                             else None), sample=reqs)
        rs = RequirementSet()
        for r in reqs:
            rs.add(Requirement(r['name'], ','.join(
                op + v for op, v in r['specs']) or None))
        by_name = {}
        for r in reqs:
            by_name.setdefault(r['name'], []).extend(r['specs'])
        pts = sample_points(allspecs)
        any_unsat = any(not any(member(sp, p) for p in pts)
                        for sp in by_name.values())
        try:
            simple = rs.split()
        except ValueError:
            return
        if any_unsat:
            raise Violation('reqset/unsat-accepted', 'an unsatisfiable '
                            'requirement was emitted: {!r}'.format(simple),
                            reqs)
        got = {}
        for sr in simple:
            got.setdefault(sr.name, []).append(sr.version)
        if sorted(got) != sorted(by_name):
            raise Violation('reqset/names', 'names {!r} != {!r}'.format(
                sorted(got), sorted(by_name)), reqs)
        if [sr.name for sr in simple] != sorted(sr.name for sr in simple):
            raise Violation('reqset/order', 'split() not sorted by name',
                            reqs)
        for name, specs in by_name.items():
            for p in pts:
                want = member(specs, p)
                have = all(v is None or Version(p) in v for v in got[name])
                if want != have:
                    raise Violation('reqset/not-equivalent', '{}: version {} '
                                    'accepted={} by the script, {} by the '
                                    'emitted requirements {!r}'.format(
                                        name, p, want, have, got[name]), reqs)
    return prop


A_PROPS = {
    'simplify': (prop_simplify, spec_lists()),
    'reqset': (prop_reqset, req_cases()),
}


def _run_a(rec, seed, budget, shard, nshards, group):
    pf, strat = A_PROPS[group]
    run_hypothesis(rec, strat, pf(rec), budget, seed)


# --------------------------------------------------------------------------
# (B) generated .pc files read back by the real pkg-config

from .. import sandbox                                        # noqa: E402
from ..argdeliv import sh_split                               # noqa: E402
import subprocess                                             # noqa: E402

INC_NAMES = ['include', 'inc dir', 'api$inc', "h'dr"]
OPT_POOL = ['-DPLAIN', '-DSPACE=a b', '-DQUOTE="q"', '-DDOLLAR=$x',
            "-DSQ=it's", '-DNUM=42']
LOPT_POOL = ['-Wl,--as-needed', '-L/opt/my libs', '-Wl,-rpath,/x y']


@st.composite
def pc_cases(draw):
    mode = draw(st.sampled_from(['shared', 'static', 'dual']))
    deps = {}
    for name in draw(st.lists(st.sampled_from(['depa', 'depb', 'depc']),
                              max_size=3, unique=True)):
        deps[name] = {
            'version': draw(st.sampled_from(LATTICE)),
            # (one spelling per version: pkg-config, unlike the specifier
            # algebra, takes 1 and 1.0 for different versions)
            'public': draw(st.one_of(st.just(None), spec_lists(
                max_size=2, spellings=False))),
            'private': draw(st.one_of(st.just(None), spec_lists(
                max_size=2, spellings=False))),
        }
        if deps[name]['public'] is None and deps[name]['private'] is None:
            deps[name]['public'] = []
        if draw(st.integers(0, 2)) == 0:
            # constrained from both lists by bounds of the same direction:
            # the two merge into one specifier
            fam = draw(st.sampled_from([('>=', '>'), ('<=', '<')]))
            deps[name]['public'] = [(draw(st.sampled_from(fam)),
                                     draw(st.sampled_from(LATTICE)))]
            deps[name]['private'] = [(draw(st.sampled_from(fam)),
                                      draw(st.sampled_from(LATTICE)))]
    return {
        'mode': mode, 'auto_fill': draw(st.booleans()),
        'incdirs': draw(st.lists(st.sampled_from(INC_NAMES), min_size=1,
                                 max_size=2, unique=True)),
        'options': draw(st.lists(st.sampled_from(OPT_POOL), max_size=3,
                                 unique=True)),
        'link_options': draw(st.lists(st.sampled_from(LOPT_POOL), max_size=1)),
        'private_static_dep': draw(st.booleans()),
        'version': draw(st.sampled_from(['1.0', '2.3.4'])),
        # installation prefix (a value of the .pc file's variables) and the
        # library's sub-directory below libdir
        'prefix': draw(st.sampled_from(['pfx', 'my pfx'])),
        'libsub': draw(st.sampled_from(['', '', 'sub'])),
        # names of the package's library and of its private static dependency
        'libname': draw(st.sampled_from(['foo', 'shell', 'util', 'thread'])),
        'depname': draw(st.sampled_from(['bar', 'xml', 'pool'])),
        # a two-word link option the private static dependency forwards
        'dep_uopt': draw(st.booleans()),
        # a single header produced in a sub-directory of the build directory
        # is part of the package's interface
        'genhdr': draw(st.booleans()),
        # the library asks for both forms itself, whatever the configured
        # library mode is
        'kind': draw(st.sampled_from([None, None, 'dual'])),
        'deps': deps,
    }


def _spec_str(specs):
    return ','.join(op + v for op, v in specs)


def in_project_consumer(case):
    # (with auto_fill the package is completed later and pkg_config() returns
    # nothing; a static library with private dependencies needs `--static`,
    # which is the consumer's choice, not the file's)
    return not case['auto_fill'] and not (
        case['private_static_dep'] and case['mode'] == 'static')


def render_pc(case, src, depdir):
    w = sandbox.write_file
    L = ["project('c17', version={!r})".format(case['version'])]
    for i, d in enumerate(case['incdirs']):
        w(os.path.join(src, d, 'api{}.h'.format(i)),
          'int foo(void);\n#define API{} 1\n'.format(i))
        L.append("inc{} = header_directory({!r}, include='*.h')".format(
            i, d))
    w(os.path.join(src, 'bar.c'), 'int bar(void){return 40;}\n'
      'int bar2(void){return 0;}\n')
    w(os.path.join(src, 'foo.c'), 'int bar(void);\nint foo(void)'
      '{return 2 + bar();}\n')
    kindkw = ', kind={!r}'.format(case['kind']) if case.get('kind') else ''
    if case['private_static_dep']:
        L.append("bar = static_library({!r}, ['bar.c']{})".format(
            case.get('depname', 'bar'),
            ", link_options=['-u', 'bar', '-u', 'bar2']"
            if case.get('dep_uopt') else ''))
        L.append("foo = library({!r}, ['foo.c'], libs=[bar]{})".format(
            posixpath.join(case.get('libsub', ''),
                           case.get('libname', 'foo')), kindkw))
    else:
        w(os.path.join(src, 'foo.c'),
          'int foo(void){return 42;}\n')
        L.append("foo = library({!r}, ['foo.c']{})".format(
            posixpath.join(case.get('libsub', ''),
                           case.get('libname', 'foo')), kindkw))
    incs = ', '.join('inc{}'.format(i) for i in range(len(case['incdirs'])))
    if case.get('genhdr'):
        w(os.path.join(src, 'projcfg.h'), '#define PROJCFG 7\n')
        L.append("cfg = copy_file('gen/inc/projcfg.h', 'projcfg.h')")
        incs += ', cfg'
    req = [(n, _spec_str(d['public'])) if d['public'] else n
           for n, d in case['deps'].items() if d['public'] is not None]
    reqp = [(n, _spec_str(d['private'])) if d['private'] else n
            for n, d in case['deps'].items() if d['private'] is not None]
    kw = ["version={!r}".format(case['version'])]
    if case['auto_fill']:
        L.append('install(foo, {})'.format(incs))
        kw.append('auto_fill=True')
    else:
        kw.append('includes=[{}]'.format(incs))
        kw.append('libs=[foo]')
    if case['options']:
        kw.append('options={!r}'.format(case['options']))
    if case['link_options']:
        kw.append('link_options={!r}'.format(case['link_options']))
    if req:
        kw.append('requires={!r}'.format(req))
    if reqp:
        kw.append('requires_private={!r}'.format(reqp))
    L.append("pkg = pkg_config('c17pkg', {})".format(', '.join(kw)))
    # the package consumed inside the project: bfg9000 reads the flags back
    # from the file it has just written
    if in_project_consumer(case):
        w(os.path.join(src, 'incons.c'), '#include "api0.h"\n' + (
            '#include "projcfg.h"\n' if case.get('genhdr') else '') +
          'int main(void){return foo() == 42 ? 0 : 1;}\n')
        L.append("executable('incons', ['incons.c'], packages=[pkg])")
    if case['auto_fill']:
        # explicitly empty fields stay empty
        L.append("pkg_config('c17nolibs', version='1.0', auto_fill=True, "
                 "libs=[])")
        L.append("pkg_config('c17noincs', version='1.0', auto_fill=True, "
                 "includes=[])")
    if req:
        # a second package declared later names the same public requirements:
        # what the first call did with them must not leak into this one
        L.append("pkg_config('c17second', version='1.0', includes=[inc0], "
                 "libs=[foo], requires={!r})".format(req))
    w(os.path.join(src, 'build.bfg'), '\n'.join(L) + '\n')
    for n, d in case['deps'].items():
        w(os.path.join(depdir, n + '.pc'),
          'Name: {0}\nDescription: dummy\nVersion: {1}\nCflags: -DHAVE_{0}\n'
          'Libs:\n'.format(n, d['version']))


def pc_split(text):
    """Split pkg-config output the way its consumers (cmake, meson,
    autoconf's eval) do: whitespace separates, backslash escapes the next
    character, quotes group; no variable or command expansion."""
    out, cur, i, started = [], [], 0, False
    quote = None
    while i < len(text):
        c = text[i]
        if quote:
            if c == quote:
                quote = None
            elif c == '\\' and quote == '"' and i + 1 < len(text):
                i += 1
                cur.append(text[i])
            else:
                cur.append(c)
        elif c in ' \t\n':
            if started:
                out.append(''.join(cur))
                cur, started = [], False
        elif c == '\\' and i + 1 < len(text):
            i += 1
            cur.append(text[i])
            started = True
        elif c in '\'"':
            quote = c
            started = True
        else:
            cur.append(c)
            started = True
        i += 1
    if started:
        out.append(''.join(cur))
    return out


KF_DOLLAR = 'pc/dollar-unescaped'


def pkgconf(args, pcpath, disable_uninstalled=False):
    env = {'PATH': '/usr/bin:/bin', 'PKG_CONFIG_PATH': ':'.join(pcpath),
           'PKG_CONFIG_LIBDIR': '/nonexistent'}
    if disable_uninstalled:
        env['PKG_CONFIG_DISABLE_UNINSTALLED'] = '1'
    p = subprocess.run(['pkg-config'] + args, env=env,
                       stdout=subprocess.PIPE, stderr=subprocess.PIPE)
    return p.returncode, p.stdout.decode(), p.stderr.decode()


def prop_pcfile(rec):
    def prop(case):
        if rec.is_open(KF_DOLLAR) and any(
                '$' in x for x in case['options'] + case['incdirs']):
            # open known finding: '$' is written unescaped into .pc files
            case = dict(case, options=[o for o in case['options']
                                       if '$' not in o],
                        incdirs=[d for d in case['incdirs']
                                 if '$' not in d] or ['include'])
            rec.excluded()
        allspecs = {}
        for n, d in case['deps'].items():
            allspecs[n] = (d['public'] or []) + (d['private'] or [])
        unsat = [n for n, sp in allspecs.items() if sp and not any(
            member(sp, p) for p in sample_points(sp))]
        labs = {'mode:' + case['mode'],
                'auto_fill' if case['auto_fill'] else 'explicit'}
        if case['deps']:
            labs.add('has-requires')
        if any(d['public'] and d['private'] for d in case['deps'].values()):
            labs.add('dependency-in-both-lists')
        if any(' ' in o or '$' in o or "'" in o or '"' in o
               for o in case['options'] + case['incdirs']):
            labs.add('special-chars')
        if case.get('genhdr'):
            labs.add('generated-header-in-interface')
        if case.get('kind'):
            labs.add('kind-in-script:' + case['kind'])
        rec.case(labs, nontrivial=(
            [case['mode'], case['auto_fill'], sorted(case['incdirs']),
             sorted(case['options']), case['private_static_dep'],
             sorted((n, spec_key(sp)) for n, sp in allspecs.items())]
            if (case['deps'] or 'special-chars' in labs) else None),
            sample=case)
        with sandbox.scratch('c17') as tmp:
            tmp = os.path.realpath(tmp)
            src = os.path.join(tmp, 'src')
            bld = os.path.join(tmp, 'bld')
            depdir = os.path.join(tmp, 'deps')
            prefix = os.path.join(tmp, case.get('prefix', 'pfx'))
            libsub = case.get('libsub', '')
            os.makedirs(src)
            os.makedirs(depdir)
            render_pc(case, src, depdir)
            env = sandbox.base_env(os.path.join(tmp, 'home'), extra={
                'PKG_CONFIG_PATH': depdir})
            conf = {'shared': ['--enable-shared', '--disable-static'],
                    'static': ['--disable-shared', '--enable-static'],
                    'dual': ['--enable-shared', '--enable-static']}[
                        case['mode']] + ['--prefix=' + prefix]
            r = sandbox.configure(src, bld, env, backend='make', extra=conf)
            if unsat:
                if r.rc == 0:
                    raise Violation('pc/unsat-accepted', 'requirements on {} '
                                    'cannot be satisfied by any version but '
                                    'configure succeeded'.format(unsat), case)
                rec.classes['unsatisfiable-rejected'] += 1
                return
            if r.rc != 0:
                if 'specifier' in r.err:
                    rec.classes['satisfiable-over-rejected'] += 1
                    return
                bad = [n for n, sp in allspecs.items()
                       if sp and not member(sp, case['deps'][n]['version'])]
                if bad and ('unable to find package' in r.err or
                            "'pkg-config', 'c17pkg'" in r.err):
                    # bfg9000 loads its own package through pkg-config, which
                    # rightly refuses: the installed dependency is outside
                    # the required range
                    rec.classes['dependency-version-unmet'] += 1
                    return
                raise Violation('pc/configure-failed', r.err.strip()[-700:],
                                case)
            # the second package's Requires line, read directly: for every
            # dependency exactly the versions its own requirement admits
            pc2 = os.path.join(bld, 'pkgconfig', 'c17second.pc')
            pub = {m: d['public'] for m, d in case['deps'].items()
                   if d['public'] is not None}
            if pub and os.path.exists(pc2):
                written = {}
                with open(pc2) as f:
                    for line in f:
                        if line.startswith('Requires:'):
                            for item in line[9:].split(','):
                                w_ = item.split()
                                if not w_:
                                    continue
                                written.setdefault(w_[0], [])
                                if len(w_) == 3:
                                    written[w_[0]].append(
                                        ('==' if w_[1] == '=' else w_[1],
                                         w_[2]))
                for m, sp in pub.items():
                    if m not in written:
                        raise Violation('pc/second-package/requires',
                                        'c17second.pc does not require {}'
                                        .format(m), case)
                    for v in sample_points(allspecs[m]):
                        if member(sp, v) != member(written[m], v):
                            raise Violation(
                                'pc/second-package/requires', 'c17second '
                                'declares {} {} but its .pc file says {!r}: '
                                'version {} is {} by the script and {} by the '
                                'file'.format(
                                    m, _spec_str(sp), written[m], v,
                                    'admitted' if member(sp, v) else
                                    'excluded', 'admitted' if member(
                                        written[m], v) else 'excluded'), case)
            b = sandbox.run_make(bld, env, ['all'])
            if b.rc != 0:
                raise Violation('pc/build-failed',
                                (b.err + b.out).strip()[-600:], case)
            i = sandbox.run_make(bld, env, ['install'])
            if i.rc != 0:
                raise Violation('pc/install-failed',
                                (i.err + i.out).strip()[-600:], case)
            bad_dep = [n for n, sp in allspecs.items() if sp and not member(
                sp, case['deps'][n]['version'])]
            if not bad_dep and in_project_consumer(case):
                bi = sandbox.run_make(bld, env, ['incons'])
                if bi.rc != 0:
                    raise Violation('pc/in-project-consumer', 'an executable '
                                    'declared with packages=[<the generated '
                                    'package>] does not build: {}'.format(
                                        (bi.err + bi.out).strip()[-600:]),
                                    case)
                run = subprocess.run([os.path.join(bld, 'incons')], env={},
                                     stdout=subprocess.PIPE,
                                     stderr=subprocess.PIPE)
                if run.returncode != 0:
                    raise Violation('pc/in-project-consumer', 'the executable '
                                    'built with packages=[<the generated '
                                    'package>] exits {}: {}'.format(
                                        run.returncode,
                                        run.stderr.decode()[-300:]), case)
            if case['auto_fill'] and not bad_dep:
                pcp = [os.path.join(bld, 'pkgconfig'), depdir]
                rc, out, err = pkgconf(['--libs', 'c17nolibs'], pcp)
                if rc != 0 or \
                        any(f.startswith('-l') for f in
                            pc_split(out.strip()) or []):
                    raise Violation('pc/explicit-empty/libs', "pkg_config("
                                    "auto_fill=True, libs=[]) yields --libs "
                                    "{!r} (exit {})".format(out.strip(), rc),
                                    case)
                rc, out, err = pkgconf(['--cflags', 'c17noincs'], pcp)
                if rc != 0 or any(f.startswith('-I') for f in
                                  pc_split(out.strip()) or []):
                    raise Violation('pc/explicit-empty/includes',
                                    "pkg_config(auto_fill=True, includes=[]) "
                                    "yields --cflags {!r} (exit {})".format(
                                        out.strip(), rc), case)
            # the build directory reached through a symbolic link elsewhere
            lnk = os.path.join(tmp, 'deep', 'er', 'bld-link')
            os.makedirs(os.path.dirname(lnk), exist_ok=True)
            if not os.path.lexists(lnk):
                os.symlink(bld, lnk)
            variants = [
                ('uninstalled-via-symlink',
                 [os.path.join(lnk, 'pkgconfig'), depdir], False,
                 [os.path.join(src, d) for d in case['incdirs']],
                 os.path.join(lnk, libsub)),
                ('uninstalled', [os.path.join(bld, 'pkgconfig'), depdir],
                 False, [os.path.join(src, d) for d in case['incdirs']],
                 os.path.join(bld, libsub)),
                ('installed', [os.path.join(prefix, 'lib', 'pkgconfig'),
                               depdir], True,
                 [os.path.join(prefix, 'include')],
                 os.path.join(prefix, 'lib', libsub)),
            ]
            for what, pcpath, dis, incdirs, libdir in variants:
                rc, out, err = pkgconf(['--cflags', 'c17pkg'], pcpath, dis)
                if rc != 0:
                    # legitimate only if a dependency's version is outside
                    # the script's specifiers
                    bad = [n for n, sp in allspecs.items()
                           if sp and not member(sp,
                                                case['deps'][n]['version'])]
                    if bad:
                        continue
                    raise Violation('pc/' + what + '/cflags-failed',
                                    'pkg-config --cflags failed: ' +
                                    err.strip()[-400:], case)
                flags = pc_split(out.strip())
                if flags is None:
                    raise Violation('pc/' + what + '/cflags-unparsable',
                                    'pkg-config output is not valid sh: {!r}'
                                    .format(out), case)
                got_inc = [os.path.normpath(f[2:]) for f in flags
                           if f.startswith('-I')]
                for d in incdirs:
                    if os.path.normpath(d) not in got_inc:
                        if '$' in d:
                            rec.fail(KF_DOLLAR, "include directory {!r}: '$' "
                                     'is written unescaped into the .pc file: '
                                     'pkg-config prints {!r}'.format(
                                         d, out.strip()), case)
                            continue
                        raise Violation('pc/' + what + '/include-dir',
                                        '--cflags {!r} lacks the include '
                                        'directory {!r}'.format(flags, d),
                                        case)
                for o in case['options']:
                    if o not in flags:
                        if '$' in o:
                            rec.fail(KF_DOLLAR, "option {!r} is written with "
                                     "an unescaped '$' into the .pc file: "
                                     'pkg-config prints {!r}'.format(
                                         o, out.strip()), case)
                            continue
                        raise Violation('pc/' + what + '/option', '--cflags '
                                        '{!r} lacks the declared option {!r} '
                                        '(raw output {!r})'.format(
                                            flags, o, out.strip()), case)
                for n, d in case['deps'].items():
                    if d['public'] is not None and \
                            '-DHAVE_' + n not in flags:
                        raise Violation('pc/' + what + '/requires-cflags',
                                        'flags of the public requirement {} '
                                        'are missing'.format(n), case)
                static = case['mode'] == 'static'
                rc, out, err = pkgconf(['--libs'] + (['--static'] if static
                                                     else []) + ['c17pkg'],
                                       pcpath, dis)
                lflags = pc_split(out.strip()) or []
                lname = '-l' + case.get('libname', 'foo')
                if rc != 0 or lname not in lflags or not any(
                        f.startswith('-L') and os.path.normpath(f[2:]) ==
                        os.path.normpath(libdir) for f in lflags):
                    raise Violation('pc/' + what + '/libs', '--libs gives '
                                    '{!r} (exit {}), expected -L{} {}'
                                    .format(lflags, rc, libdir, lname), case)
                for o in case['link_options']:
                    if o not in lflags:
                        raise Violation('pc/' + what + '/link-option',
                                        '--libs {!r} lacks {!r}'.format(
                                            lflags, o), case)
                if static and case['private_static_dep'] and \
                        case.get('dep_uopt'):
                    us = [lflags[k + 1] for k, f in enumerate(lflags[:-1])
                          if f == '-u']
                    if us != ['bar', 'bar2']:
                        raise Violation(
                            'pc/' + what + '/forwarded-link-options',
                            "the private static dependency forwards ['-u', "
                            "'bar', '-u', 'bar2'] but --libs --static gives "
                            '{!r}'.format(lflags), case)
                if case.get('kind') == 'dual' and case['mode'] != 'static':
                    # both forms were asked for by the script: the static
                    # one exists, and a static link gets its dependency
                    rc, out, err = pkgconf(['--libs', '--static', 'c17pkg'],
                                           pcpath, dis)
                    sflags = pc_split(out.strip()) or []
                    arch = os.path.join(libdir, 'lib{}.a'.format(
                        case.get('libname', 'foo')))
                    if not os.path.exists(arch):
                        raise Violation(
                            'pc/' + what + '/dual-static-form', "library("
                            "kind='dual') published by the package, but {} "
                            'does not exist'.format(arch), case)
                    if rc != 0 or (
                            case['private_static_dep'] and '-l' + case.get(
                                'depname', 'bar') not in sflags):
                        raise Violation(
                            'pc/' + what + '/libs-private', "library(kind="
                            "'dual') with a static dependency: --libs "
                            '--static gives {!r} (exit {}), which lacks -l{}'
                            .format(sflags, rc, case.get('depname', 'bar')),
                            case)
                if static and case['private_static_dep'] and \
                        '-l' + case.get('depname', 'bar') not in lflags:
                    raise Violation('pc/' + what + '/libs-private',
                                    '--libs --static {!r} lacks the private '
                                    'static dependency -l{}'.format(
                                        lflags, case.get('depname', 'bar')),
                                    case)
                # a consumer builds against the package and runs
                w = sandbox.write_file
                cons = os.path.join(tmp, 'consumer_' + what + '.c')
                w(cons, '#include "api0.h"\n' + (
                    '#include "projcfg.h"\n#if PROJCFG != 7\n#error cfg\n'
                    '#endif\n' if case.get('genhdr') else '') +
                  'int main(void){return foo() == 42 ? 0 : 1;}\n')
                exe = os.path.join(tmp, 'consumer_' + what)
                cflags = [f for f in flags if not f.startswith('-DHAVE_')]
                link = [f for f in lflags
                        if not f.startswith(('-L/opt', '-Wl,-rpath,/x'))]
                c = subprocess.run(['gcc', cons, '-o', exe] + cflags + link,
                                   stdout=subprocess.PIPE,
                                   stderr=subprocess.PIPE)
                if c.returncode != 0:
                    raise Violation('pc/' + what + '/consumer-build',
                                    'a consumer does not build with the '
                                    'flags {!r} {!r}: {}'.format(
                                        cflags, link,
                                        c.stderr.decode()[-400:]), case)
                run = subprocess.run([exe], env={'LD_LIBRARY_PATH': libdir},
                                     stdout=subprocess.PIPE,
                                     stderr=subprocess.PIPE)
                if run.returncode != 0:
                    raise Violation('pc/' + what + '/consumer-run',
                                    'consumer exited {}: {}'.format(
                                        run.returncode,
                                        run.stderr.decode()[-300:]), case)
            # configuring the same build directory again with a shorter
            # prefix writes the same .pc files as a fresh build directory
            conf2 = [c for c in conf if not c.startswith('--prefix=')] + \
                ['--prefix=/p']
            r2 = sandbox.configure(src, bld, env, backend='make', extra=conf2)
            bld2 = os.path.join(tmp, 'bld2')
            r3 = sandbox.configure(src, bld2, env, backend='make',
                                   extra=conf2)
            if r2.rc != 0 or r3.rc != 0:
                if r2.rc != r3.rc:
                    raise Violation('pc/reconfigure-status', 're-configure '
                                    'exits {} but a fresh configure {}: {}'
                                    .format(r2.rc, r3.rc,
                                            (r2.err or r3.err)[-400:]), case)
            else:
                for fn in sorted(os.listdir(os.path.join(bld2, 'pkgconfig'))):
                    with open(os.path.join(bld2, 'pkgconfig', fn)) as f:
                        a = f.read()
                    try:
                        with open(os.path.join(bld, 'pkgconfig', fn)) as f:
                            b = f.read()
                    except OSError:
                        b = None
                    if a.replace(bld2, '@B@') != (b or '').replace(bld, '@B@'):
                        raise Violation(
                            'pc/reconfigure-differs', '{} after configuring '
                            'the build directory a second time (--prefix=/p) '
                            'differs from a fresh one:\n--- fresh\n{}\n--- '
                            're-configured\n{}'.format(fn, a[-400:],
                                                       (b or '')[-500:]), case)
            # --exists agrees with the script's specifiers for every version
            for n, sp in allspecs.items():
                for v in sample_points(sp)[::3]:
                    sandbox.write_file(
                        os.path.join(depdir, n + '.pc'),
                        'Name: {0}\nDescription: dummy\nVersion: {1}\n'
                        'Cflags: -DHAVE_{0}\nLibs:\n'.format(n, v))
                    rc, out, err = pkgconf(
                        ['--exists', 'c17pkg'],
                        [os.path.join(bld, 'pkgconfig'), depdir])
                    others_ok = all(
                        not s2 or member(s2, case['deps'][m]['version'])
                        for m, s2 in allspecs.items() if m != n)
                    want = (not sp or member(sp, v)) and others_ok
                    pub = {m: d['public'] for m, d in case['deps'].items()
                           if d['public'] is not None}
                    if pub:
                        rc2, _, err2 = pkgconf(
                            ['--exists', 'c17second'],
                            [os.path.join(bld, 'pkgconfig'), depdir])
                        want2 = all(
                            not s2 or member(s2, v if m == n else
                                             case['deps'][m]['version'])
                            for m, s2 in pub.items())
                        if (rc2 == 0) != want2:
                            raise Violation(
                                'pc/requires-version/second-package',
                                'with {} at version {} pkg-config --exists '
                                'c17second {} but the requirements declared '
                                'for it ({}) say {}'.format(
                                    n, v, 'succeeds' if rc2 == 0 else 'fails',
                                    {m: _spec_str(s2)
                                     for m, s2 in pub.items()},
                                    'accept' if want2 else 'reject'), case)
                    if (rc == 0) != want:
                        raise Violation(
                            'pc/requires-version', 'with {} at version {} '
                            'pkg-config --exists {} but the script\'s '
                            'specifiers {} say {}'.format(
                                n, v, 'succeeds' if rc == 0 else 'fails',
                                _spec_str(sp), 'accept' if want else
                                'reject'), case)
                sandbox.write_file(
                    os.path.join(depdir, n + '.pc'),
                    'Name: {0}\nDescription: dummy\nVersion: {1}\n'
                    'Cflags: -DHAVE_{0}\nLibs:\n'.format(
                        n, case['deps'][n]['version']))
    return prop


def core_pc_cases():
    """Always run, whatever the seed: the combinations earlier seeded changes
    needed (script-side kind under each configured mode, generated header,
    forwarded two-word options, library names ending in d/l)."""
    out = []
    for mode in ('shared', 'static', 'dual'):
        for kind in (None, 'dual'):
            for auto in (False, True):
                out.append({
                    'mode': mode, 'auto_fill': auto, 'incdirs': ['include'],
                    'options': ['-DSPACE=a b'], 'link_options': [],
                    'private_static_dep': True, 'version': '1.0',
                    'prefix': 'my pfx', 'libsub': 'sub' if auto else '',
                    'libname': 'shell', 'depname': 'pool', 'dep_uopt': True,
                    'genhdr': True, 'kind': kind,
                    'deps': {'depa': {'version': '1.0', 'public': [],
                                      'private': None}}})
    # one dependency constrained from both lists (the two bounds merge) and
    # named again by the second package
    for auto in (False, True):
        out.append(dict(out[0], auto_fill=auto, deps={
            'depa': {'version': '2.1', 'public': [('>=', '1.0')],
                     'private': [('>=', '1.2')]},
            'depb': {'version': '3.0', 'public': [('<', '9.0')],
                     'private': [('<=', '3.1')]}}))
    return out


def _run_b(rec, seed, budget, shard, nshards):
    prop = prop_pcfile(rec)
    for k, case in enumerate(core_pc_cases()):
        if k % nshards != shard:
            continue
        try:
            prop(case)
        except Violation as v:
            rec.fail('core/' + v.key, v.message, case)
    run_hypothesis(rec, pc_cases(), prop_pcfile(rec), budget, seed,
                   shrink=(os.environ.get('VERIF_TIER') == 'thorough'))


def tasks(tier):
    return [
        Task('simplify', _run_a, quick=16 * 1500, thorough=16 * 100000,
             group='simplify'),
        Task('reqset', _run_a, quick=16 * 500, thorough=16 * 30000,
             group='reqset'),
        Task('pcfile', _run_b, quick=16 * 4, thorough=16 * 60),
    ]


def replay(task, case, rec):
    if task in A_PROPS:
        A_PROPS[task][0](rec)(case)
    elif task == 'pcfile':
        prop_pcfile(rec)(case)
    else:
        raise HarnessError('unknown task ' + task)
