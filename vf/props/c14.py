"""C14 — Linked binaries build, run in place, and survive moving the build
directory.  Generated library/executable DAGs are built with the real gcc/ar
through make (or the reference ninja), every executable is run with an empty
environment, RUNPATH entries are inspected, the build directory is renamed and
the executables are run again."""
import os
import posixpath
import re
import subprocess

from hypothesis import strategies as st

from ..runner import Task, Violation, HarnessError, run_hypothesis
from .. import sandbox

ID = 'C14'
LEVEL = 'exploration'
TECHNIQUE = ('property-based testing (Hypothesis): generated library DAGs '
             'built with the real toolchain; oracle = program output computed '
             'from the model, $ORIGIN-relative run paths, relocation of the '
             'build directory')
RULE = ('DAGs of 1-6 libraries (static_library, shared_library, dual-use '
        'library, versioned shared libraries, whole_archive use) and 1-3 '
        'executables placed in generated nested output directories (some '
        'names string prefixes of a sibling), every library made of two '
        'objects (one reached only through dependents) and reading an '
        'exported variable, each '
        'declaring only its direct dependencies (in shuffled order), under '
        'every --enable/--disable-shared/static combination, make and '
        'reference ninja.  Non-trivial: >= 1 static library that itself '
        'depends on a library and binaries in >= 2 different directories; '
        'distinct = kinds + dependency shape + directories + mode + backend.')
LEVEL_TEXT = ('Generated-input search with a behavioural oracle: every '
              'executable must print the value the dependency model predicts '
              '(so every transitive requirement was linked in a usable '
              'order), before and after the whole build directory is moved.')
LEVEL_NOTE = ('Trusted: gcc 12 / binutils / glibc loader of this machine '
              '(ELF, Linux only); readelf for RUNPATH.')
ASSUMPTIONS = ['only C, ELF/Linux, gcc']

# (including directories whose names are string prefixes of a sibling's)
DIRS = ['', '', 'lib', 'lib/deep', 'bin', 'out/a/b', 'x y', 'libexec',
        'out/a/b2', 'out/a']


@st.composite
def cases(draw):
    nlib = draw(st.integers(1, 6))
    libs = []
    if draw(st.integers(0, 3)) == 0:
        # a diamond whose shared node has a further dependency: a static
        # library reached twice must still end up before what it needs
        k = lambda: draw(st.sampled_from(['static', 'static', 'static',
                                          'dual', 'shared']))
        d = lambda: draw(st.sampled_from(DIRS))
        libs = [{'kind': k(), 'dir': d(), 'deps': [], 'whole': []},
                {'kind': k(), 'dir': d(), 'deps': [0], 'whole': []},
                {'kind': k(), 'dir': d(), 'deps': [1], 'whole': []},
                {'kind': k(), 'dir': d(), 'deps': [1], 'whole': []}]
        nlib = draw(st.integers(4, 6))
    reserved = set()
    if not libs and draw(st.integers(0, 4)) == 0:
        reserved = {0, 1}       # used by the bundle only
        # a shared library bundling two static ones as whole archives
        libs = [{'kind': 'static', 'dir': draw(st.sampled_from(DIRS)),
                 'deps': [], 'whole': []},
                {'kind': 'static', 'dir': draw(st.sampled_from(DIRS)),
                 'deps': [], 'whole': []},
                {'kind': draw(st.sampled_from(['shared', 'versioned'])),
                 'dir': draw(st.sampled_from(DIRS + ['plugins only'])),
                 'deps': [0, 1], 'whole': [0, 1],
                 # a bundle without objects of its own
                 'nosrc': draw(st.booleans())}]
        nlib = draw(st.integers(3, 5))
    if libs and libs[-1].get('nosrc'):
        libs[-1]['dir'] = 'plugins only'    # a directory nothing else uses
    for i in range(len(libs), nlib):
        kind = draw(st.sampled_from(['static', 'static', 'shared', 'shared',
                                     'dual', 'versioned']))
        cands = [k for k in range(i) if k not in reserved]
        ndeps = draw(st.integers(0, min(3, len(cands))))
        deps = draw(st.lists(st.sampled_from(cands), min_size=ndeps,
                             max_size=ndeps, unique=True)) if cands else []
        deps = list(draw(st.permutations(deps)))
        libs.append({'kind': kind, 'dir': draw(st.sampled_from(DIRS)),
                     'deps': deps,
                     # code that needs libm: the library says so through
                     # link_options, its consumers must get the option
                     'mopt': draw(st.integers(0, 1 if kind == 'dual'
                                              else 7)) == 0,
                     # a two-word link option every consumer must get whole
                     # (`-u <symbol>`: keep an otherwise unreferenced member)
                     'uopt': kind == 'static' and draw(st.booleans()),
                     # written in C++ (needs the C++ run-time library, which
                     # only the right link driver adds); its users are C
                     'cxx': draw(st.integers(0, 3)) == 0,
                     'whole': [d for d in deps if libs[d]['kind'] == 'static'
                               and draw(st.integers(0, 5)) == 0]})
    exes = []
    if len(libs) >= 3 and libs[2]['whole'] == [0, 1]:
        exes.append({'dir': draw(st.sampled_from(DIRS)), 'deps': [2]})
    if len(libs) >= 4 and libs[2]['deps'] == [1] and libs[3]['deps'] == [1]:
        exes.append({'dir': draw(st.sampled_from(DIRS)),
                     'deps': list(draw(st.permutations([2, 3])))})
    for j in range(draw(st.integers(1, 3))):
        cands = [k for k in range(nlib) if k not in reserved]
        ndeps = draw(st.integers(1, min(3, len(cands))))
        deps = draw(st.lists(st.sampled_from(cands), min_size=ndeps,
                             max_size=ndeps, unique=True))
        exes.append({'dir': draw(st.sampled_from(DIRS)),
                     'deps': list(draw(st.permutations(deps)))})
    # a library linked as a whole archive through one library and normally
    # through another path would be linked twice (duplicate symbols): that is
    # the script's doing, so whole_archive is only used on single-use libs
    for i, lib in enumerate(libs):
        for d in list(lib['whole']):
            users = sum(1 for k, l in enumerate(libs) if d in l['deps']) + \
                sum(1 for e in exes if d in e['deps'])
            if users > 1:
                lib['whole'].remove(d)
    return {'libs': libs, 'exes': exes,
            'mode': draw(st.sampled_from(
                [['--enable-shared', '--enable-static'],
                 ['--enable-shared', '--disable-static'],
                 ['--disable-shared', '--enable-static'], []])),
            'backend': draw(st.sampled_from(['make', 'make', 'ninja'])),
            # the programs are asked for by name in the fresh build directory
            # (their libraries are then built as their prerequisites)
            'by_name_first': draw(st.booleans())}


def value(case, i, memo=None):
    memo = {} if memo is None else memo
    if i not in memo:
        own = 0 if case['libs'][i].get('nosrc') else i + 1
        memo[i] = own + sum(value(case, d, memo)
                            for d in case['libs'][i]['deps'])
    return memo[i]


def whole_symbols(case, exe):
    """Libraries whose every member the executable may use because a shared
    library it links took them in as whole archives."""
    out = []
    for i in exe['deps']:
        lib = case['libs'][i]
        if lib['kind'] in ('shared', 'versioned'):
            out += [d for d in lib['whole'] if d not in out]
    return out


def exe_value(case, exe):
    return 1000 + sum(value(case, d) for d in exe['deps']) + \
        sum(100000 * (d + 1) for d in whole_symbols(case, exe))


def render(case, src):
    L = ["project('c14', version='1.0')"]
    for i, lib in enumerate(case['libs']):
        body = ''.join('int f_{}(void);\n'.format(d) for d in lib['deps'])
        # the value lives in an exported variable: code of a static library
        # that ends up in a shared one must be position independent
        # dependents reach the library through h_<i>, which lives in a
        # second object that the program itself never refers to
        hdeps = []
        for d in lib['deps']:
            hdeps += case['libs'][d]['deps'] if case['libs'][d].get('nosrc') \
                else [d]
        body = ''.join('int h_{}(void);\n'.format(d) for d in hdeps)
        m = ''
        if lib.get('mopt'):
            body = '#include <math.h>\nvolatile double vg_{} = 4.0;\n'.format(
                i) + body
            m = ' + ((int)sqrt(vg_{}) - 2)'.format(i)
        body += 'int g_{0} = {1};\nint f_{0}(void) {{ return g_{0}{2}{3}; }}\n' \
            .format(i, i + 1, ''.join(' + h_{}()'.format(d)
                                      for d in hdeps), m)
        main_src = 'l{}.c'.format(i)
        if lib.get('cxx') and not lib.get('mopt') and not lib.get('nosrc'):
            main_src = 'l{}.cpp'.format(i)
            decls = ''.join('int h_{}(void);\n'.format(d) for d in hdeps)
            calls_ = ''.join(' + h_{}()'.format(d) for d in hdeps)
            body = ('#include <string>\nextern "C" {\n' + decls + '}\n' +
                    'extern "C" int g_{0};\nint g_{0} = {1};\n'.format(
                        i, i + 1) +
                    'extern "C" int f_{0}(void) {{ std::string s(3, \'x\'); '
                    's += "y"; return g_{0} + (int)s.size() - 4{1}; }}\n'
                    .format(i, calls_))
        sandbox.write_file(os.path.join(src, main_src), body)
        # a third object nothing in the project's libraries refers to: only
        # a whole-archive link carries it along
        sandbox.write_file(
            os.path.join(src, 'l{}_w.c'.format(i)),
            'int w_{0}(void) {{ return {1}; }}\n'.format(i, 100000 * (i + 1)))
        sandbox.write_file(
            os.path.join(src, 'l{}_b.c'.format(i)),
            'int f_{0}(void);\nint h_{0}(void) {{ return f_{0}(); }}\n'
            .format(i))
        fn = {'static': 'static_library', 'shared': 'shared_library',
              'dual': 'library', 'versioned': 'shared_library'}[lib['kind']]
        name = (lib['dir'] + '/' if lib['dir'] else '') + 'l{}'.format(i)
        deps = ', '.join('whole_archive(v{})'.format(d) if d in lib['whole']
                         else 'v{}'.format(d) for d in lib['deps'])
        extra = ''
        if lib['kind'] == 'versioned':
            extra = ", version='1.2.3', soversion='1'"
        lo = (['-Wl,--no-as-needed', '-lm'] if lib.get('mopt') else []) + \
            (['-u', 'w_{}'.format(i)] if lib.get('uopt') else [])
        if lo:
            extra += ", link_options={!r}".format(lo)
        if lib.get('nosrc'):
            L.append("v{0} = {1}({2!r}{3}{4})".format(
                i, fn, name, ', libs=[{}]'.format(deps), extra))
            continue
        L.append("v{0} = {1}({2!r}, [{5!r}, 'l{0}_b.c', 'l{0}_w.c']{3}{4})"
                 .format(
            i, fn, name, ', libs=[{}]'.format(deps) if deps else '', extra,
            main_src))
    for j, exe in enumerate(case['exes']):
        body = '#include <stdio.h>\n'
        calls = []
        for d in exe['deps']:
            # (a bundle without sources exports what it took in whole)
            calls += case['libs'][d]['deps'] if case['libs'][d].get('nosrc') \
                else [d]
        body += ''.join('int f_{}(void);\n'.format(d) for d in calls)
        ws = whole_symbols(case, exe)
        body += ''.join('int w_{}(void);\n'.format(d) for d in ws)
        body += 'int main(void) {{ printf("%d\\n", 1000{}{}); return 0; }}\n' \
            .format(''.join(' + f_{}()'.format(d) for d in calls),
                    ''.join(' + w_{}()'.format(d) for d in ws))
        sandbox.write_file(os.path.join(src, 'm{}.c'.format(j)), body)
        name = (exe['dir'] + '/' if exe['dir'] else '') + 'prog{}'.format(j)
        L.append("executable({!r}, ['m{}.c'], libs=[{}])".format(
            name, j, ', '.join('v{}'.format(d) for d in exe['deps'])))
    sandbox.write_file(os.path.join(src, 'build.bfg'), '\n'.join(L) + '\n')


def shape(case):
    return [[(l['kind'], sorted(l['deps']), l['dir'], len(l['whole']))
             for l in case['libs']],
            [(sorted(e['deps']), e['dir']) for e in case['exes']],
            case['mode'], case['backend']]


def prop_link(rec):
    def prop(case):
        libs = case['libs']
        static_with_deps = any(l['kind'] in ('static', 'dual') and l['deps']
                               for l in libs)
        dirs = {l['dir'] for l in libs} | {e['dir'] for e in case['exes']}
        labs = {'mode:' + (' '.join(case['mode']) or 'default'),
                case['backend']}
        for l in libs:
            labs.add('kind:' + l['kind'])
        if any(l['whole'] for l in libs):
            labs.add('whole-archive')
        if any(len(l['whole']) >= 2 for l in libs):
            labs.add('two-whole-archives-in-one-link')
        if any(l.get('mopt') for l in libs):
            labs.add('library-link-option')
        if case.get('by_name_first'):
            labs.add('programs-built-by-name-first')
        if any(l.get('cxx') and not l.get('mopt') and not l.get('nosrc')
               for l in libs):
            labs.add('c++-library-used-from-c')
        if sum(1 for l in libs if l.get('uopt')) >= 2:
            labs.add('two-word-link-options-from-several-libraries')
        rec.case(labs, nontrivial=(shape(case) if static_with_deps and
                                   len(dirs) >= 2 else None), sample=case)
        with sandbox.scratch('c14') as tmp:
            src = os.path.join(tmp, 'src')
            bld = os.path.join(tmp, 'bld')
            os.makedirs(src)
            render(case, src)
            env = sandbox.base_env(os.path.join(tmp, 'home'))
            r = sandbox.configure(src, bld, env, backend=case['backend'],
                                  extra=case['mode'])
            if r.rc != 0:
                raise Violation('link/configure-failed', 'configure failed: '
                                + r.err.strip()[-700:], case)
            if case.get('by_name_first'):
                for j, exe in enumerate(case['exes']):
                    t = posixpath.join(exe['dir'], 'prog{}'.format(j))
                    b = sandbox.run_backend(case['backend'], bld, env, [t])
                    if b.rc != 0:
                        msg = (b.err + b.out).strip()
                        raise Violation('link/build-failed/by-name',
                                        'building {} by name in a fresh '
                                        'build directory failed: {}'.format(
                                            t, msg[-900:]), case)
            b = sandbox.run_backend(case['backend'], bld, env, ['all'])
            if b.rc != 0:
                msg = (b.err + b.out).strip()
                what = 'undefined-reference' if 'undefined reference' in msg \
                    else 'fpic' if 'recompile with -fPIC' in msg else 'other'
                raise Violation('link/build-failed/' + what, 'build failed: '
                                + msg[-900:], case)
            where = bld
            for phase in ('in-place', 'moved'):
                for j, exe in enumerate(case['exes']):
                    p = os.path.join(where, exe['dir'], 'prog{}'.format(j))
                    want = exe_value(case, exe)
                    try:
                        out = subprocess.run([p], env={}, cwd='/',
                                             stdout=subprocess.PIPE,
                                             stderr=subprocess.PIPE,
                                             timeout=60)
                    except OSError as e:
                        raise Violation('link/not-runnable/' + phase,
                                        '{}: {}'.format(p, e), case)
                    if out.returncode != 0 or \
                            out.stdout.decode().strip() != str(want):
                        raise Violation(
                            'link/run-failed/' + phase, 'prog{} ({}) exited '
                            '{} printing {!r}, expected {}; stderr: {}'.format(
                                j, phase, out.returncode,
                                out.stdout.decode().strip(), want,
                                out.stderr.decode()[-300:]), case)
                if phase == 'in-place':
                    # run paths must be relative to the binary
                    for dp, dn, fn in os.walk(bld):
                        for n in fn:
                            q = os.path.join(dp, n)
                            if os.path.islink(q) or not (
                                    n.startswith('prog') or '.so' in n):
                                continue
                            d = subprocess.run(['readelf', '-d', q],
                                               stdout=subprocess.PIPE,
                                               stderr=subprocess.DEVNULL)
                            for m in re.finditer(
                                    r'\((?:RUNPATH|RPATH)\).*\[(.*)\]',
                                    d.stdout.decode()):
                                for comp in m.group(1).split(':'):
                                    if comp and not comp.startswith(
                                            '$ORIGIN'):
                                        raise Violation(
                                            'link/absolute-rpath', '{} has '
                                            'the run path {!r}'.format(
                                                os.path.relpath(q, bld),
                                                m.group(1)), case)
                    moved = os.path.join(tmp, 'elsewhere', 'moved bld')
                    os.makedirs(os.path.dirname(moved))
                    os.rename(bld, moved)
                    where = moved
    return prop


def _run(rec, seed, budget, shard, nshards):
    run_hypothesis(rec, cases(), prop_link(rec), budget, seed,
                   shrink=(os.environ.get('VERIF_TIER') == 'thorough'))


def tasks(tier):
    return [Task('link', _run, quick=16 * 5, thorough=16 * 80)]


def replay(task, case, rec):
    prop_link(rec)(case)
