"""C06 — Make, Ninja and compile_commands.json describe the same build.

One generated script + environment is configured for both backends; both are
executed with the recording stub toolchain; the argv / cwd / environment of the
process that produces each output, the compile_commands.json entries, the set
of buildable target names and the rebuild sets after single-file touches are
compared between the two (a differential oracle: no model of bfg9000's naming
or flag computation is involved)."""
import json
import os
import posixpath

from hypothesis import strategies as st

from ..runner import Task, Violation, HarnessError, run_hypothesis
from .. import graph, sandbox

ID = 'C06'
LEVEL = 'exploration'
TECHNIQUE = ('property-based testing (Hypothesis): differential between the '
             'Make build, the reference-Ninja build and compile_commands.json '
             'of the same generated script (recorded argv/cwd/env per output, '
             'target names, rebuild sets)')
RULE = ('Generated DAG scripts (as for C03, incl. always-outdated steps, link-'
        'mode copies, generated headers, pch by name) decorated with per-target '
        'compile/link options, global options, dual-use library(), and '
        'configurations: --enable/--disable-shared/static, --prefix/--bindir '
        '(with spaces), CFLAGS/CPPFLAGS/LDFLAGS/LDLIBS from the environment. '
        'Besides the static comparison and one full build: rebuild sets '
        'after touching each source, and every custom step built twice as '
        'an explicit target.  Non-trivial: project has >= 1 library, >= 1 per-target option and '
        '>= 1 global or environment flag; distinct = canonical DAG shape + '
        'option/configuration signature.')
LEVEL_TEXT = ('Generated-input search with a differential oracle between the '
              'three emitters of every builtin: equal program, arguments, '
              'working directory and environment per output up to the '
              'documented backend-specific additions, equal target names and '
              'equal rebuild sets.')
LEVEL_NOTE = ('Trusted: recording stubs, GNU Make 4.3, reference Ninja '
              'evaluator.  Documented backend-specific additions that are '
              'normalised away: -fdiagnostics-color / -fcolor-diagnostics '
              '(Ninja only), ./x vs x spelling of build-directory paths, the '
              'Make-only depfixer call (not a toolchain process).')
ASSUMPTIONS = [
    'the stub toolchain stands for gcc; real-compiler behaviour is C07/C14/'
    'C16\'s subject',
]
TRUSTED_BASE = ['tools/src/rec.c', 'tools/refninja', 'GNU Make 4.3']

OPT_POOL = ['-DX=1', '-O2', '-g', '-DNAME="a b"', '-Wall', '-DY=$z',
            '-I/opt/inc dir']
LOPT_POOL = ['-Wl,--as-needed', '-Wl,-O1', '-L/opt/lib dir', '-s']


@st.composite
def cases(draw):
    model = draw(graph.projects(max_steps=7, allow_always=True))
    decor = {'global_options': draw(st.lists(st.sampled_from(OPT_POOL),
                                             max_size=2, unique=True)),
             'global_link_options': draw(st.lists(
                 st.sampled_from(LOPT_POOL), max_size=1)),
             'dual': []}
    for s in model['steps']:
        if s['kind'] in ('exe', 'slib', 'shlib'):
            if draw(st.booleans()):
                s['copts'] = draw(st.lists(st.sampled_from(OPT_POOL),
                                           min_size=1, max_size=2,
                                           unique=True))
            if draw(st.integers(0, 2)) == 0:
                s['lopts'] = draw(st.lists(st.sampled_from(LOPT_POOL),
                                           min_size=1, max_size=2,
                                           unique=True))
        if s['kind'] in ('slib', 'shlib') and not s.get('versioned') and \
                draw(st.integers(0, 2)) == 0:
            decor['dual'].append(s['id'])
        if s['kind'] in ('exe', 'slib', 'shlib') and model['headers'] and \
                draw(st.integers(0, 2)) == 0 and \
                any(r[0] == 'src' for r in s['files']):
            s['pch'] = model['headers'][0]
            decor['pch_headers'] = [model['headers'][0]]
        if s['kind'] in ('step', 'command') and draw(st.booleans()):
            s['env'] = {'VFENV_A': draw(st.sampled_from(
                ['v', 'a b', '$x', "q'q", ''])), 'VFENV_B': 'fixed'}
    decor.setdefault('pch_headers', [])
    if not model['default'] and not model['install']:
        decor['yacc'] = draw(st.sampled_from([None, 'one-first',
                                              'pair-first']))
        if draw(st.integers(0, 2)) == 0:
            decor['wide'] = draw(st.sampled_from([17, 18, 33, 35, 52]))
    model['decor'] = decor
    conf = []
    mode = draw(st.sampled_from(['both', 'shared', 'static', 'default']))
    conf += {'both': ['--enable-shared', '--enable-static'],
             'shared': ['--enable-shared', '--disable-static'],
             'static': ['--disable-shared', '--enable-static'],
             'default': []}[mode]
    if draw(st.booleans()):
        conf.append('--prefix=' + draw(st.sampled_from(['/opt/p',
                                                        '/opt/my prefix'])))
    if draw(st.integers(0, 3)) == 0:
        conf.append('--bindir=' + draw(st.sampled_from(['/opt/b in',
                                                        '/usr/bin'])))
    envflags = {}
    for k, pool in (('CFLAGS', OPT_POOL), ('CPPFLAGS', OPT_POOL),
                    ('LDFLAGS', LOPT_POOL), ('LDLIBS', ['-lm', '-ldl'])):
        if draw(st.integers(0, 2)) == 0:
            v = draw(st.sampled_from(pool))
            envflags[k] = "'" + v + "'" if (' ' in v or '"' in v or '$' in v) \
                else v
    return {'model': model, 'conf': conf, 'envflags': envflags, 'mode': mode}


COLOR = {'-fdiagnostics-color', '-fcolor-diagnostics',
         '-fdiagnostics-color=always'}
MAKE_ENV = {'MAKEFLAGS', 'MAKELEVEL', 'MFLAGS', 'MAKE_TERMOUT', 'MAKEFILES',
            'MAKE_TERMERR', 'MAKEOVERRIDES', 'VF_LOG', 'REFNINJA_TRACE',
            'SHLVL', 'PWD', 'OLDPWD', '_'}


def _unhex(h):
    return bytes.fromhex(h).decode('utf-8', 'surrogateescape')


def norm_arg(a):
    # `./x` and `x` name the same file relative to the step's directory; the
    # backends and the compilation database differ in this spelling only
    if a.startswith('./') and len(a) > 2:
        return a[2:]
    for flag in ('-I', '-L', '-isystem', '-iquote'):
        if a.startswith(flag + './') and len(a) > len(flag) + 2:
            return flag + a[len(flag) + 2:]
    return a


def norm_argv(argv):
    return [norm_arg(a) for a in argv if a not in COLOR]


def output_of(tool, argv):
    if tool in ('cc', 'c++'):
        if '-o' in argv:
            return posixpath.normpath(argv[argv.index('-o') + 1])
        return None
    if tool == 'ar':
        return posixpath.normpath(argv[2])
    if tool in ('cp', 'ln'):
        return posixpath.normpath(argv[-1])
    if tool in ('rec', 'rec2') and len(argv) > 1:
        return argv[1]
    if tool == 'yacc':
        # (identified by its input: the output arguments are what may differ)
        return 'yacc:' + ','.join(posixpath.basename(a) for a in argv
                                  if a.endswith('.y'))
    return None


def per_output(entries, root):
    out = {}
    for e in entries:
        argv = [_unhex(a).replace(root, '@ROOT@') for a in e['argv']]
        key = output_of(e['tool'], argv)
        env = {k: _unhex(v).replace(root, '@ROOT@')
               for k, v in e['env'].items() if k not in MAKE_ENV}
        out.setdefault(key, []).append(
            {'argv': norm_argv(argv), 'cwd': _unhex(e['cwd']).replace(
                root, '@ROOT@'), 'env': env})
    return out


def _norm_file(p, src, bld):
    p = p.replace('\\ ', ' ')
    if p.startswith(src + '/'):
        return 'S:' + posixpath.normpath(p[len(src) + 1:])
    if p.startswith(bld + '/'):
        return 'B:' + posixpath.normpath(p[len(bld) + 1:])
    if p.startswith('/'):
        return 'A:' + p
    return 'B:' + posixpath.normpath(p)


def make_relation(bld, src, env):
    """{target: set(direct prerequisites)} from GNU Make's own database
    (`make -pq`), order-only prerequisites excluded."""
    r = sandbox.run_make(bld, env, ['-pq', 'all'])
    rel = {}
    in_files = False
    prev = ''
    for line in r.out.split('\n'):
        if line.startswith('# Files'):
            in_files = True
            continue
        if line.startswith('# files hash-table stats') or \
                line.startswith('# VPATH'):
            in_files = False
        if not in_files or not line or line[0] in '#\t':
            prev = line
            continue
        if prev.startswith('# Not a target'):
            prev = line
            continue
        prev = line
        if ':' not in line or ':=' in line or line.startswith('.'):
            continue
        tgt, _, rest = line.partition(':')
        if rest.startswith(':'):
            rest = rest[1:]
        rest = rest.split(' | ')[0] if ' | ' in (' ' + rest) else rest
        if rest.strip().startswith('|'):
            rest = ''
        deps = [d for d in rest.replace('\\ ', '\x00').split() if d != '|']
        for t in tgt.replace('\\ ', '\x00').split():
            t = t.replace('\x00', ' ')
            rel.setdefault(_norm_file(t, src, bld), set()).update(
                _norm_file(d.replace('\x00', ' '), src, bld) for d in deps)
    return rel


def ninja_relation(bld, src):
    """The same relation read from build.ninja (inputs + implicit deps)."""
    rel = {}
    text = open(os.path.join(bld, 'build.ninja')).read().replace('$\n', '')
    srcvar = src
    for line in text.split('\n'):
        if line.startswith('srcdir = '):
            srcvar = line[len('srcdir = '):]
        if not line.startswith('build '):
            continue
        body = line[len('build '):].replace('$ ', '\x00').replace(
            '$:', '\x01')
        outs, _, rest = body.partition(':')
        rest = rest.split('||')[0]
        toks = rest.replace('|', ' ').split()
        deps = toks[1:]
        conv = lambda t: _norm_file(
            t.replace('\x00', ' ').replace('\x01', ':').replace(
                '${srcdir}', srcvar).replace('$$', '$'), src, bld)
        for o in outs.replace('|', ' ').split():
            rel.setdefault(conv(o), set()).update(conv(d) for d in deps)
    return rel


def collapse(rel, files):
    """Direct dependency relation between the files of the model: helper
    targets (stamps, phony aliases that are not model names) are looked
    through."""
    out = {}

    def expand(d, seen):
        if d in files:
            return {d}
        if d in seen or d not in rel:
            return set()
        res = set()
        for x in rel[d]:
            res |= expand(x, seen | {d})
        return res
    for t in files:
        if t in rel:
            s = set()
            for d in rel[t]:
                s |= expand(d, {t})
            out[t] = s - {t}
    return out


def configure_both(case, tmp):
    src = os.path.join(tmp, 'src')
    graph.render(case['model'], src)
    env = sandbox.base_env(os.path.join(tmp, 'home'), stub=True,
                           extra=dict(case['envflags'], CC='cc'))
    blds = {}
    for backend in ('make', 'ninja'):
        # same absolute build directory path for both (moved aside in between)
        bld = os.path.join(tmp, 'bld')
        r = sandbox.configure(src, bld, env, backend=backend,
                              extra=case['conf'])
        blds[backend] = (r, bld)
        if r.rc == 0:
            os.rename(bld, bld + '.' + backend)
        elif os.path.exists(bld):
            os.rename(bld, bld + '.' + backend)
    # builds run without the configure-time flag variables: GNU Make would
    # re-export Makefile variables of the same name (CFLAGS, LDFLAGS, ...) to
    # its children, which is Make's doing, not part of the described build
    benv = sandbox.base_env(os.path.join(tmp, 'home'), stub=True)
    return src, benv, blds


def prop_diff(rec):
    def prop(case):
        model = case['model']
        has_lib = any(s['kind'] in ('slib', 'shlib') for s in model['steps'])
        has_opt = any(s.get('copts') or s.get('lopts')
                      for s in model['steps'])
        has_glob = bool(model['decor']['global_options'] or
                        model['decor']['global_link_options'] or
                        case['envflags'])
        labs = {'mode:' + case['mode']}
        if model['decor']['dual']:
            labs.add('dual-library')
        if case['envflags']:
            labs.add('env-flags')
        for s_ in model['steps']:
            if s_['kind'] == 'step' and s_['always']:
                labs.add('always-outdated' + ('-multi-output'
                                              if len(s_['outs']) > 1 else ''))
            if s_.get('mode', 'copy') not in (None, 'copy'):
                labs.add('copy-' + s_['mode'])
        rec.case(labs, nontrivial=(
            [graph.canonical(model), sorted(case['envflags']),
             case['conf'], model['decor']['global_options'],
             sorted(len(s.get('copts') or []) for s in model['steps'])]
            if has_lib and has_opt and has_glob else None), sample=case)
        with sandbox.scratch('c06') as tmp:
            root = os.path.realpath(tmp)
            src, env, blds = configure_both(case, tmp)
            rcs = {b: blds[b][0].rc for b in blds}
            if rcs['make'] != rcs['ninja']:
                raise Violation('diff/configure-status', 'configure exit '
                                'status differs: {}; make: {} ninja: {}'
                                .format(rcs, blds['make'][0].err[-300:],
                                        blds['ninja'][0].err[-300:]), case)
            if rcs['make'] != 0:
                rec.classes['configure-rejected-by-both'] += 1
                return
            bld = os.path.join(tmp, 'bld')
            # compile_commands.json: both backends write the same one
            cdbs = {}
            for b in ('make', 'ninja'):
                p = os.path.join(bld + '.' + b, 'compile_commands.json')
                with open(p) as f:
                    cdbs[b] = json.load(f)
            def strip(db):
                return [dict(e, arguments=norm_argv(e['arguments']))
                        if 'arguments' in e else e for e in db]
            if strip(cdbs['make']) != strip(cdbs['ninja']):
                raise Violation('diff/compdb-differs', 'the two backends '
                                'wrote different compile_commands.json', case)
            logs = {}
            clock = sandbox.Clock(tmp)
            names = ['all', 'clean', 'install', 'uninstall', 'test', 'tests',
                     'dist', 'regenerate']
            g = graph.reference_graph(model)
            for m in g:
                for o in m['outputs']:
                    names.append(o[2:])
            # (1) same buildable target names
            present = {}
            for b in ('make', 'ninja'):
                os.rename(bld + '.' + b, bld)
                present[b] = {}
                for n in names:
                    r = sandbox.run_backend(b, bld, env, [n], extra=['-n'])
                    if b == 'ninja' and r.rc == 2:
                        raise HarnessError('reference ninja: ' + r.err[-400:])
                    unknown = ('No rule to make target' in r.err or
                               'unknown target' in r.err)
                    present[b][n] = not unknown
                os.rename(bld, bld + '.' + b)
            diff = sorted(n for n in names
                          if present['make'][n] != present['ninja'][n])
            if diff:
                raise Violation('diff/target-names', 'targets known to only '
                                'one backend: {}'.format(
                                    {n: present['make'][n] and 'make' or
                                     'ninja' for n in diff}), case)
            # (1b) same direct dependency relation between the project's files
            files = set()
            for m in g:
                files.update(f if not f.startswith('P:') else 'B:' + f[2:]
                             for f in m['inputs'])
                files.update(o if not o.startswith('P:') else 'B:' + o[2:]
                             for o in m['outputs'])
            for h in model['decor']['pch_headers']:
                files.add('B:' + h + '.gch')
                files.add('S:' + h)
            os.rename(bld + '.make', bld)
            mrel = collapse(make_relation(bld, src, env), files)
            os.rename(bld, bld + '.make')
            os.rename(bld + '.ninja', bld)
            nrel = collapse(ninja_relation(bld, src), files)
            os.rename(bld, bld + '.ninja')
            for t in sorted(set(mrel) | set(nrel)):
                if mrel.get(t) != nrel.get(t):
                    raise Violation('diff/dependency-relation', '{}: '
                                    'prerequisites in the Makefile {} but in '
                                    'build.ninja {}'.format(
                                        t, sorted(mrel.get(t, ['<no rule>'])),
                                        sorted(nrel.get(t, ['<no rule>']))),
                                    case)
            # (2) full build with the stub toolchain
            builds = {}
            for b in ('make', 'ninja'):
                os.rename(bld + '.' + b, bld)
                log = os.path.join(tmp, 'log.' + b)
                clock.tick(tmp)
                r = sandbox.run_backend(b, bld, dict(env, VF_LOG=log),
                                        ['all'])
                builds[b] = r
                logs[b] = per_output(sandbox.read_log(log), root)
                os.rename(bld, bld + '.' + b)
            if builds['make'].rc != builds['ninja'].rc:
                raise Violation('diff/build-status', 'make exited {} but '
                                'ninja {}: {} / {}'.format(
                                    builds['make'].rc, builds['ninja'].rc,
                                    builds['make'].err[-300:],
                                    (builds['ninja'].err +
                                     builds['ninja'].out)[-300:]), case)
            if set(logs['make']) != set(logs['ninja']):
                raise Violation('diff/steps', 'steps run only by one backend:'
                                ' make-only {} ninja-only {}'.format(
                                    sorted(set(logs['make']) -
                                           set(logs['ninja']), key=str),
                                    sorted(set(logs['ninja']) -
                                           set(logs['make']), key=str)), case)
            for out, ms in logs['make'].items():
                ns = logs['ninja'][out]
                if len(ms) != len(ns):
                    raise Violation('diff/step-count', '{!r} run {} times by '
                                    'make, {} by ninja'.format(
                                        out, len(ms), len(ns)), case)
                for a, b_ in zip(ms, ns):
                    for field in ('argv', 'cwd', 'env'):
                        if a[field] != b_[field]:
                            raise Violation(
                                'diff/' + field, 'step producing {!r}: {} '
                                'differs between the backends:\n  make : {!r}'
                                '\n  ninja: {!r}'.format(out, field, a[field],
                                                         b_[field]), case)
            # (3) compile_commands.json agrees with what was run
            for e in cdbs['make']:
                if 'output' not in e or 'arguments' not in e:
                    continue
                # (the step is identified by what its command line writes; for
                # a versioned library `output` names the link-time name)
                out = output_of('cc', e['arguments']) or \
                    posixpath.normpath(e['output'])
                ran = logs['make'].get(out)
                if not ran:
                    continue       # not part of the default build
                want = norm_argv([a.replace(root, '@ROOT@')
                                  for a in e['arguments']])
                got = ran[0]['argv']
                # the database names the tool as bfg9000 found it
                if want[1:] != got[1:] or \
                        posixpath.basename(want[0]) != \
                        posixpath.basename(got[0]):
                    raise Violation('diff/compdb-argv', 'compile_commands.'
                                    'json entry for {!r} differs from the '
                                    'command the backends run:\n  compdb: {!r}'
                                    '\n  run   : {!r}'.format(out, want, got),
                                    case)
                d = e['directory'].replace(root, '@ROOT@')
                if posixpath.normpath(d) != posixpath.normpath(
                        ran[0]['cwd']):
                    raise Violation('diff/compdb-directory', '{!r}: '
                                    'directory {!r} but run in {!r}'.format(
                                        out, d, ran[0]['cwd']), case)
            # (4) same rebuild sets after touching each source
            files = sorted(model['sources'] + model['headers'] +
                           model['data'])[:6]
            for f in files:
                sets = {}
                t = clock.tick(tmp)
                os.utime(os.path.join(src, f), ns=(t, t))
                for b in ('make', 'ninja'):
                    os.rename(bld + '.' + b, bld)
                    log = os.path.join(tmp, 'tlog.' + b)
                    if os.path.exists(log):
                        os.unlink(log)
                    r = sandbox.run_backend(b, bld, dict(env, VF_LOG=log),
                                            ['all'])
                    sets[b] = set(per_output(sandbox.read_log(log), root))
                    os.rename(bld, bld + '.' + b)
                # a link carries the time stamp of its target: Make finds it
                # up to date, Ninja compares with the time it logged and
                # re-makes it; both are right
                for m in g:
                    if m.get('transparent'):
                        for b in sets:
                            sets[b].discard(m['outputs'][0][2:])
                if sets['make'] != sets['ninja']:
                    raise Violation('diff/rebuild-set', 'after touching {}: '
                                    'make rebuilt {} but ninja {}'.format(
                                        f, sorted(sets['make'], key=str),
                                        sorted(sets['ninja'], key=str)), case)
            # (5) every custom step as an explicit target, twice in a row:
            # the same steps run under both backends (a step that is always
            # out of date runs again, any other does not)
            for st_ in model['steps']:
                if st_['kind'] != 'step':
                    continue
                for attempt in (1, 2):
                    sets = {}
                    clock.tick(tmp)
                    for b in ('make', 'ninja'):
                        os.rename(bld + '.' + b, bld)
                        log = os.path.join(tmp, 'slog.' + b)
                        if os.path.exists(log):
                            os.unlink(log)
                        sandbox.run_backend(b, bld, dict(env, VF_LOG=log),
                                            [st_['outs'][0]])
                        sets[b] = set(per_output(sandbox.read_log(log),
                                                 root))
                        os.rename(bld, bld + '.' + b)
                    for m in g:
                        if m.get('transparent'):
                            for b in sets:
                                sets[b].discard(m['outputs'][0][2:])
                    if sets['make'] != sets['ninja']:
                        raise Violation(
                            'diff/target-rebuild-set', 'building {} '
                            '(attempt {} after a full build): make ran {} '
                            'but ninja {}'.format(
                                st_['outs'][0], attempt,
                                sorted(sets['make'], key=str),
                                sorted(sets['ninja'], key=str)), case)
    return prop


def _run(rec, seed, budget, shard, nshards):
    run_hypothesis(rec, cases(), prop_diff(rec), budget, seed,
                   shrink=(os.environ.get('VERIF_TIER') == 'thorough'))


def tasks(tier):
    return [Task('diff', _run, quick=16 * 4, thorough=16 * 60)]


def replay(task, case, rec):
    prop_diff(rec)(case)
