"""C16 — Semantic options have their documented effect with the detected
compiler.

The option space is finite: every semantic option value x placement x
compiler/language is enumerated (singles exhaustively, pairs by a seed-chosen
slice in the quick tier and exhaustively in the thorough tier).  Each
combination is a one-file project configured by bfg9000 and built with the
real compiler; per-option probes (predefined macros, ELF inspection, program
behaviour) decide whether the option had its documented effect."""
import itertools
import os
import re
import subprocess

from ..runner import Task, Violation, HarnessError
from .. import sandbox

ID = 'C16'
LEVEL = 'exploration'
TECHNIQUE = ('exhaustive enumeration of the semantic-option table (singles; '
             'pairs sliced by seed or complete) against the real compilers, '
             'with behavioural probes as oracle')
RULE = ('Options: define (plain / numeric / string with spaces / empty), std (per '
        'language), include_dir, system include_dir, warning all / extra / '
        'error / disable, debug, optimize disable / size / speed / linktime, '
        'pic, pthread, sanitize, static, entry_point, lib, lib_dir + lib, '
        'pch; special cases: a macro defined twice, two-word flags from the '
        'environment, -iquote from the environment for a directory also given '
        'as include_dir, pch in shared and dual-use libraries.  Placements: per-target (compile_options / link_options) and '
        'global (global_options / global_link_options), each with and without '
        'conflicting flags taken from CFLAGS/CPPFLAGS.  Compilers: gcc and '
        'clang for C, g++ and clang++ for C++.  Non-trivial: every '
        'combination (each exercises a real compile, link and run); distinct '
        '= (compiler, language, placement, env flags, option values).')
LEVEL_TEXT = ('Enumeration of a finite table with a behavioural oracle: each '
              'option must be accepted by the compiler and linker found on '
              'the system and must be observable in the produced program '
              '(macro values, sections, dynamic section, exit status).')
LEVEL_NOTE = ('Trusted: gcc 12.2 / clang 14 of this machine, glibc, readelf; '
              'Fortran and Java builders are not exercised (only their '
              'absence of semantic-option probes).')
ASSUMPTIONS = ['options with no probe-able effect on ELF/Linux (gui, '
               'install_name_change, module_def) are not enumerated']

COMPILERS = [('gcc', 'c', {'CC': 'gcc'}), ('clang', 'c', {'CC': 'clang'}),
             ('g++', 'c++', {'CXX': 'g++'}),
             ('clang++', 'c++', {'CXX': 'clang++'})]

# (id, kind, expression, probe key, expected value or None)
#  kind: 'c' compile option, 'l' link option, 'cl' both lists
OPTIONS = [
    ('define-plain', 'c', "opts.define('MYDEF')", 'MYDEF', '1'),
    ('define-num', 'c', "opts.define('MYDEF', '42')", 'MYDEF', '42'),
    ('define-str', 'c', "opts.define('MYSTR', '\"hi there\"')", 'MYSTR',
     'hi there'),
    # defined to nothing (not to 1)
    ('define-empty', 'c', "opts.define('MYEMPTY', '')", 'MYEMPTY', '[]'),
    ('include', 'c', "opts.include_dir(header_directory('inc'))", 'INC',
     '42'),
    ('sysinclude', 'c',
     "opts.include_dir(header_directory('sysinc', system=True))", 'SYS', '7'),
    ('warn-all', 'c', "opts.warning('all')", 'WARNED', 'yes'),
    ('warn-extra', 'c', "opts.warning('extra')", None, None),
    ('warn-error', 'c', "opts.warning('all', 'error')", 'FAILS', 'yes'),
    ('warn-disable', 'c', "opts.warning('disable')", 'WARNED', 'no'),
    ('debug', 'cl', 'opts.debug()', 'DEBUGINFO', 'yes'),
    ('opt-disable', 'cl', "opts.optimize('disable')", 'OPT', '0'),
    ('opt-size', 'cl', "opts.optimize('size')", 'OPT', 'size'),
    ('opt-speed', 'cl', "opts.optimize('speed')", 'OPT', 'speed'),
    ('opt-lto', 'cl', "opts.optimize('linktime')", None, None),
    ('pic', 'c', 'opts.pic()', 'PIC', 'yes'),
    ('pthread', 'cl', 'opts.pthread()', 'REENTRANT', 'yes'),
    ('sanitize', 'c', 'opts.sanitize()', 'ASAN', 'yes'),
    ('static', 'l', 'opts.static()', 'STATIC', 'yes'),
    ('entry', 'l', "opts.entry_point('my_entry')", 'EXIT', '7'),
    ('libm', 'l', "opts.lib('m')", 'SQRT', '3'),
    ('libdir', 'l', "opts.lib_dir(directory('extlib')), opts.lib('ext')",
     'EXT', '99'),
    ('pch', 'p', None, 'PCH', '5'),
]
STD = {'c': [('std-c99', '199901'), ('std-c11', '201112'),
             ('std-gnu17', '201710')],
       'c++': [('std-c++11', '201103'), ('std-c++17', '201703')]}
CONFLICTS = [
    {'static', 'sanitize'}, {'entry', 'sanitize'}, {'entry', 'static'},
    {'warn-error', 'warn-disable'}, {'warn-all', 'warn-disable'},
    {'warn-all', 'warn-error'}, {'warn-extra', 'warn-disable'},
    {'warn-extra', 'warn-error'},
    {'entry', 'pthread'}, {'entry', 'debug'}, {'opt-lto', 'entry'},
    {'pch', 'sysinclude'}, {'pch', 'include'},
]

MAIN = r'''
#include <stdio.h>
#include <unistd.h>
#ifdef USE_INC
#include "probe_inc.h"
#endif
#ifdef USE_INC_ANGLE
#include <probe_inc.h>
#endif
#ifdef USE_SYS
#include "sys_probe.h"
#endif
#ifdef USE_MATH
#include <math.h>
#endif
#ifdef USE_EXT
#ifdef __cplusplus
extern "C"
#endif
int ext_value(void);
#endif
#ifdef USE_EXT2
#ifdef __cplusplus
extern "C"
#endif
int ext_only_new(void);
#endif
#define STR2(x) #x
#define STR(x) STR2(x)
#ifdef PROVOKE
static int provoke(int a) { int unused_variable; return a; }
#endif
#ifdef __cplusplus
extern "C"
#endif
void my_entry(void) { _exit(7); }
int main(int argc, char **argv) {
  (void)argv;
#ifdef PROVOKE
  argc = provoke(argc);
#endif
#ifdef MYDEF
  printf("MYDEF=%d\n", MYDEF + 0);
#endif
#ifdef MYEMPTY
  printf("MYEMPTY=[%s]\n", STR(MYEMPTY));
#endif
#ifdef MYSTR
  printf("MYSTR=%s\n", MYSTR);
#endif
#ifdef PROBE_INC
  printf("INC=%d\n", PROBE_INC);
#endif
#ifdef SYS_PROBE
  printf("SYS=%d\n", SYS_PROBE);
#endif
#ifdef PCH_MACRO
  printf("PCH=%d\n", PCH_MACRO);
#endif
#ifdef FROM_ENV
  printf("FROM_ENV=%d\n", FROM_ENV);
#endif
#ifdef FROM_CPP
  printf("FROM_CPP=%d\n", FROM_CPP);
#endif
#ifdef __cplusplus
  printf("STD=%ld\n", (long)__cplusplus);
#else
  printf("STD=%ld\n", (long)__STDC_VERSION__);
#endif
#if defined(__OPTIMIZE_SIZE__)
  printf("OPT=size\n");
#elif defined(__OPTIMIZE__)
  printf("OPT=speed\n");
#else
  printf("OPT=0\n");
#endif
#if defined(__PIC__) && !defined(__PIE__)
  printf("PIC=yes\n");
#else
  printf("PIC=no\n");
#endif
#ifdef _REENTRANT
  printf("REENTRANT=yes\n");
#endif
#if defined(__SANITIZE_ADDRESS__)
  printf("ASAN=yes\n");
#elif defined(__has_feature)
#if __has_feature(address_sanitizer)
  printf("ASAN=yes\n");
#endif
#endif
#ifdef USE_MATH
  printf("SQRT=%d\n", (int)sqrt((double)(argc + 8)));
#endif
#ifdef USE_EXT
  printf("EXT=%d\n", ext_value());
#endif
#ifdef USE_EXT2
  printf("EXT2=%d\n", ext_only_new());
#endif
  return 0;
}
'''


def option_ids(lang):
    return [o[0] for o in OPTIONS] + [s[0] for s in STD[lang]]


def lookup(oid, lang):
    for o in OPTIONS:
        if o[0] == oid:
            return o
    for s, v in STD[lang]:
        if s == oid:
            return (oid, 'c', "opts.std('{}')".format(oid[4:]), 'STD', v)
    raise KeyError(oid)


def all_cases(tier, seed):
    cases = []
    for cname, lang, cenv in COMPILERS:
        ids = option_ids(lang)
        for placement in ('target', 'global'):
            for envflags in (False, True):
                for oid in ids:
                    # singles: every compiler; env-flag variant only for the
                    # options a CFLAGS value can conflict with
                    if envflags and not oid.startswith(('opt-', 'define',
                                                        'std-')):
                        continue
                    cases.append({'compiler': cname, 'lang': lang,
                                  'cenv': cenv, 'placement': placement,
                                  'envflags': envflags, 'opts': [oid]})
        # the same macro defined twice (same list / global then target): the
        # later definition is the one the compiler must see
        for special in ('redefine-same-list', 'redefine-global-target',
                        'env-two-token-flags', 'env-iquote-same-dir',
                        'pch-in-shared-library', 'pch-in-dual-library',
                        'libdir-repeated', 'toolchain-list-options',
                        'env-hash-in-flags'):
            cases.append({'compiler': cname, 'lang': lang, 'cenv': cenv,
                          'placement': 'target', 'envflags': False,
                          'opts': [], 'special': special})
        pairs = [p for p in itertools.combinations(ids, 2)
                 if not any(c <= set(p) for c in CONFLICTS) and
                 p[0].split('-')[0] != p[1].split('-')[0]]
        if tier == 'quick':
            if cname not in ('gcc', 'clang++'):
                continue
            pairs = [p for k, p in enumerate(pairs) if (k + seed) % 8 == 0]
        for placement in (('target', 'global') if tier != 'quick'
                          else ('target',)):
            for p in pairs:
                cases.append({'compiler': cname, 'lang': lang, 'cenv': cenv,
                              'placement': placement, 'envflags': False,
                              'opts': list(p)})
    return cases


def render(case, src):
    lang = case['lang']
    ext = '.c' if lang == 'c' else '.cpp'
    defs = []
    copts, lopts = [], []
    pch = False
    for oid in case['opts']:
        _, kind, expr, key, val = lookup(oid, lang)
        if oid == 'include':
            defs.append('USE_INC')
        if oid == 'sysinclude':
            defs.append('USE_SYS')
        if oid == 'libm':
            defs.append('USE_MATH')
        if oid == 'libdir':
            defs.append('USE_EXT')
        if oid in ('warn-all', 'warn-error', 'warn-disable', 'warn-extra'):
            defs.append('PROVOKE')
        if kind == 'p':
            pch = True
            continue
        if 'c' in kind:
            copts.append(expr)
        if 'l' in kind:
            lopts.append(expr)
    if 'sysinclude' in case['opts'] and not any(
            o.startswith('warn') for o in case['opts']):
        # a system header may contain code that warns; with errors enabled
        # the build must still pass
        copts.append("opts.warning('all', 'error')")
    special = case.get('special')
    if special == 'redefine-same-list':
        copts += ["opts.define('MYDEF', '1')", "opts.define('MYDEF', '42')"]
    elif special == 'redefine-global-target':
        copts += ["opts.define('MYDEF', '42')"]
    elif special == 'env-two-token-flags':
        defs += ['USE_INC', 'USE_SYS']
    elif special == 'env-iquote-same-dir':
        # the directory is on the quote chain through CPPFLAGS; the script
        # adds it to the bracket chain
        defs += ['USE_INC_ANGLE']
        sdk = os.path.join(os.path.dirname(src), 'sdk', 'include')
        sandbox.write_file(os.path.join(sdk, 'probe_inc.h'),
                           '#define PROBE_INC 42\n')
        copts += ["opts.include_dir(header_directory({!r}))".format(sdk)]
    elif special == 'libdir-repeated':
        # library directories are searched in the order they were first
        # given, also when one of them is named again later
        defs += ['USE_EXT', 'USE_EXT2']
        os.makedirs(os.path.join(src, 'oldlib'), exist_ok=True)
    elif special in ('pch-in-shared-library', 'pch-in-dual-library'):
        defs += ['USE_EXT']
        sandbox.write_file(
            os.path.join(src, 'plib' + ext),
            ('extern "C" ' if lang != 'c' else '') +
            'int ext_value(void) { return PCH_MACRO * 10; }\n')
    sandbox.write_file(os.path.join(src, 'main' + ext), MAIN)
    sandbox.write_file(os.path.join(src, 'inc', 'probe_inc.h'),
                       '#define PROBE_INC 42\n')
    sandbox.write_file(os.path.join(src, 'sysinc', 'sys_probe.h'),
                       '#define SYS_PROBE 7\nstatic int sys_fn(int a) '
                       '{ int sys_unused; return a; }\n'
                       'static int sys_user(void) { return sys_fn(1); }\n')
    sandbox.write_file(os.path.join(src, 'pch.h'), '#define PCH_MACRO 5\n')
    os.makedirs(os.path.join(src, 'extlib'), exist_ok=True)
    L = ["project('c16', lang={!r})".format(lang)]
    if special == 'redefine-global-target':
        L.append("global_options([opts.define('MYDEF', '1')], lang={!r})"
                 .format(lang))
    defopts = ', '.join("opts.define('{}')".format(d) for d in defs)
    kw = []
    if case['placement'] == 'global':
        if copts:
            L.append("global_options([{}], lang={!r})".format(
                ', '.join(copts), lang))
        if lopts:
            L.append("global_link_options([{}])".format(', '.join(lopts)))
        if defopts:
            kw.append('compile_options=[{}]'.format(defopts))
    else:
        allc = ', '.join(x for x in (defopts, ', '.join(copts)) if x)
        if allc:
            kw.append('compile_options=[{}]'.format(allc))
        if lopts:
            kw.append('link_options=[{}]'.format(', '.join(lopts)))
    if pch:
        kw.append("pch='pch.h'")
    if special == 'libdir-repeated':
        # pre-built shared libraries given as files: new/ext, old/bar,
        # new/baz; old/ also holds a stale libext.so
        kw.append("libs=[shared_library('extlib/libext.so'), "
                  "shared_library('oldlib/libbar.so'), "
                  "shared_library('extlib/libbaz.so')]")
    if special in ('pch-in-shared-library', 'pch-in-dual-library'):
        # the link step adds its own compile options (-fPIC ...): the
        # precompiled header must be built with them too
        L.append("plib = {}('plib', ['plib{}'], pch='pch.h')".format(
            'shared_library' if 'shared' in special else 'library', ext))
        kw.append('libs=[plib]')
    L.append("executable('prog', ['main{}']{})".format(
        ext, ''.join(', ' + k for k in kw)))
    sandbox.write_file(os.path.join(src, 'build.bfg'), '\n'.join(L) + '\n')


def check_case(rec, case):
    lang = case['lang']
    labs = {case['compiler'], 'placement:' + case['placement'],
            'n={}'.format(len(case['opts'])),
            'special:' + str(case.get('special'))} | \
        {'opt:' + o for o in case['opts']}
    if case['envflags']:
        labs.add('env-flags')
    rec.case(labs, nontrivial=[case['compiler'], case['placement'],
                               case['envflags'], case['opts'],
                               case.get('special')],
             sample={k: v for k, v in case.items() if k != 'cenv'})
    key = '+'.join(case['opts']) or case.get('special', '')

    def culprit(text):
        """Attribute a toolchain failure to one option where the message
        allows it, so that one root cause has one key."""
        if 'asan' in text and 'sanitize' in case['opts']:
            return 'sanitize'
        if re.search(r"-Osize|to .-O. should be|in '-O", text):
            return 'opt-size'
        return key
    jcase = {k: v for k, v in case.items()}
    with sandbox.scratch('c16') as tmp:
        src = os.path.join(tmp, 'src')
        bld = os.path.join(tmp, 'bld')
        os.makedirs(src)
        render(case, src)
        # prebuilt external library for lib_dir + lib
        sandbox.write_file(os.path.join(tmp, 'ext.c'),
                           'int ext_value(void) { return 99; }\n'
                           'int ext_only_new(void) { return 5; }\n')
        subprocess.run(['gcc', '-c', os.path.join(tmp, 'ext.c'), '-o',
                        os.path.join(tmp, 'ext.o')], check=True)
        subprocess.run(['ar', 'cr', os.path.join(src, 'extlib', 'libext.a'),
                        os.path.join(tmp, 'ext.o')], check=True)
        if case.get('special') == 'libdir-repeated':
            for d, name, body in (
                    ('oldlib', 'ext', 'int ext_value(void) { return 1; }'),
                    ('oldlib', 'bar', 'int bar_value(void) { return 2; }'),
                    ('extlib', 'baz', 'int baz_value(void) { return 3; }')):
                c = os.path.join(tmp, d + '_' + name + '.c')
                sandbox.write_file(c, body + '\n')
                subprocess.run(['gcc', '-shared', '-fPIC', c, '-o',
                                os.path.join(src, d,
                                             'lib{}.so'.format(name))],
                               check=True)
            subprocess.run(['gcc', '-shared', '-fPIC',
                            os.path.join(tmp, 'ext.c'), '-o',
                            os.path.join(src, 'extlib', 'libext.so')],
                           check=True)
            os.unlink(os.path.join(src, 'extlib', 'libext.a'))
        extra = dict(case['cenv'])
        if case['envflags']:
            extra['CFLAGS' if lang == 'c' else 'CXXFLAGS'] = \
                '-O2 -DFROM_ENV=5 -DMYDEF=13'
            extra['CPPFLAGS'] = '-DFROM_CPP=6'
        if case.get('special') == 'env-hash-in-flags':
            # `#` inside a word of a flags variable is an ordinary character
            extra['CPPFLAGS'] = '-DTAG=x#y -DFROM_CPP=6'
            extra['CFLAGS' if lang == 'c' else 'CXXFLAGS'] = \
                '-DTAG2=#z -DFROM_ENV=5'
        if case.get('special') == 'env-iquote-same-dir':
            extra['CPPFLAGS'] = "-iquote '{}'".format(
                os.path.join(tmp, 'sdk', 'include'))
        if case.get('special') == 'env-two-token-flags':
            # two-word flags whose first word occurs in both variables
            extra['CFLAGS' if lang == 'c' else 'CXXFLAGS'] = \
                "-isystem '{}' -D FROM_ENV=5".format(
                    os.path.join(src, 'inc'))
            extra['CPPFLAGS'] = "-isystem '{}' -D FROM_CPP=6".format(
                os.path.join(src, 'sysinc'))
        env = sandbox.base_env(os.path.join(tmp, 'home'), extra=extra)
        cextra = (['--enable-shared', '--enable-static']
                  if case.get('special') == 'pch-in-dual-library' else [])
        if case.get('special') == 'toolchain-list-options':
            # options placed through a toolchain file, as a list whose
            # elements contain blanks and quotes
            tcf = os.path.join(tmp, 'toolchain.bfg')
            sandbox.write_file(
                tcf, "compile_options(['-DMYSTR=\"hi there\"', '-DMYDEF=42', "
                "'-DFROM_ENV=5'], {!r})\n".format(lang))
            cextra.append('--toolchain=' + tcf)
        r = sandbox.configure(src, bld, env, backend='make', extra=cextra)
        if r.rc != 0:
            rec.fail('option/configure-failed/' + key, 'configure failed: ' +
                     r.err.strip()[-600:], jcase)
            return
        benv = sandbox.base_env(os.path.join(tmp, 'home'))
        b = sandbox.run_make(bld, benv, ['all'])
        text = b.err + b.out
        expect_fail = 'warn-error' in case['opts']
        if expect_fail:
            if b.rc == 0:
                rec.fail('option/no-effect/' + key, "warning('error') did "
                         'not turn the provoked warning into an error', jcase)
            return
        if b.rc != 0:
            rec.fail('option/rejected/' + culprit(text), '{}: the toolchain '
                     'rejected the flags for {}: {}'.format(
                         case['compiler'], case['opts'], text.strip()[-700:]),
                     jcase)
            return
        prog = os.path.join(bld, 'prog')
        p = subprocess.run([prog], stdout=subprocess.PIPE,
                           stderr=subprocess.PIPE, env={}, timeout=60)
        out = dict(l.split('=', 1) for l in p.stdout.decode().splitlines()
                   if '=' in l)
        out['EXIT'] = str(p.returncode)
        out['WARNED'] = 'yes' if 'unused_variable' in text else 'no'
        sect = subprocess.run(['readelf', '-S', prog],
                              stdout=subprocess.PIPE).stdout.decode()
        out['DEBUGINFO'] = 'yes' if '.debug_info' in sect else 'no'
        dyn = subprocess.run(['readelf', '-d', prog], stdout=subprocess.PIPE,
                             stderr=subprocess.PIPE).stdout.decode()
        out['STATIC'] = 'no' if '(NEEDED)' in dyn else 'yes'
        if 'entry' not in case['opts'] and p.returncode != 0:
            rec.fail('option/program-failed/' + key, 'program exited {}: {}'
                     .format(p.returncode, p.stderr.decode()[-300:]), jcase)
            return
        for oid in case['opts']:
            _, kind, expr, pk, want = lookup(oid, lang)
            if pk is None or pk == 'FAILS':
                continue
            if oid == 'entry':
                if out['EXIT'] != '7':
                    rec.fail('option/no-effect/' + key, 'entry_point: exit '
                             'status {} (expected 7)'.format(out['EXIT']),
                             jcase)
                continue
            if 'entry' in case['opts'] and pk not in ('DEBUGINFO',
                                                      'STATIC'):
                continue        # nothing is printed with a custom entry
            got = out.get(pk)
            if got != want:
                rec.fail('option/no-effect/{}'.format(oid),
                         '{}: {} in {} placement ({}): probe {}={!r}, expected '
                         '{!r}; build output: {}'.format(
                             case['compiler'], oid, case['placement'],
                             case['opts'], pk, got, want,
                             text.strip()[-300:]), jcase)
        sp = case.get('special')
        if sp in ('redefine-same-list', 'redefine-global-target') and \
                out.get('MYDEF') != '42':
            rec.fail('option/no-effect/' + sp, '{}: the later define() of a '
                     'macro must win: MYDEF={!r}, expected 42'.format(
                         case['compiler'], out.get('MYDEF')), jcase)
        if sp == 'env-iquote-same-dir' and out.get('INC') != '42':
            rec.fail('option/no-effect/' + sp, '{}: include_dir() of a '
                     'directory that CPPFLAGS names with -iquote: INC={!r}'
                     .format(case['compiler'], out.get('INC')), jcase)
        if sp == 'env-hash-in-flags' and (
                out.get('FROM_ENV') != '5' or out.get('FROM_CPP') != '6'):
            rec.fail('option/env-flags-lost/hash', '{}: flags after a word '
                     'containing `#` in CPPFLAGS/CFLAGS were lost: {}; build '
                     'output: {}'.format(case['compiler'], {
                         k: out.get(k) for k in ('FROM_ENV', 'FROM_CPP')},
                         text.strip()[-300:]), jcase)
        if sp == 'toolchain-list-options' and (
                out.get('MYSTR') != 'hi there' or out.get('MYDEF') != '42' or
                out.get('FROM_ENV') != '5'):
            rec.fail('option/no-effect/' + sp, '{}: compile_options([...]) in '
                     'a toolchain file: program prints {}; build output: {}'
                     .format(case['compiler'], {k: out.get(k) for k in (
                         'MYSTR', 'MYDEF', 'FROM_ENV')}, text.strip()[-300:]),
                     jcase)
        if sp == 'libdir-repeated' and out.get('EXT') != '99':
            rec.fail('option/no-effect/' + sp, '{}: -lext must come from the '
                     'directory given first (99), got EXT={!r}; build output: '
                     '{}'.format(case['compiler'], out.get('EXT'),
                                 text.strip()[-300:]), jcase)
        if sp in ('pch-in-shared-library', 'pch-in-dual-library') and \
                out.get('EXT') != '50':
            rec.fail('option/no-effect/' + sp, '{}: the library built with a '
                     'precompiled header returns EXT={!r}, expected 50'
                     .format(case['compiler'], out.get('EXT')), jcase)
        if sp == 'env-two-token-flags' and (
                out.get('INC') != '42' or out.get('SYS') != '7' or
                out.get('FROM_ENV') != '5' or out.get('FROM_CPP') != '6'):
            rec.fail('option/env-flags-lost/two-token', '{}: two-word flags '
                     'from CFLAGS/CPPFLAGS did not all reach the compiler: {}'
                     .format(case['compiler'], out), jcase)
        if case['envflags']:
            if out.get('FROM_ENV') != '5' or out.get('FROM_CPP') != '6':
                rec.fail('option/env-flags-lost/' + key, 'flags from the '
                         'environment did not reach the compiler: {}'.format(
                             out), jcase)


def _run(rec, seed, budget, shard, nshards, cases):
    # the table is enumerated completely: collect every violation (one per
    # root-cause key) instead of stopping at the first
    seen = set()
    for k, case in enumerate(cases):
        if k % nshards == shard:
            try:
                check_case(rec, case)
            except Violation as v:
                if v.key not in seen:
                    seen.add(v.key)
                    rec.violations.append({'key': v.key, 'message': v.message,
                                           'case': v.case})
    rec.exhaustive = True


def tasks(tier):
    try:
        seed = int(os.environ.get('VERIF_SEED') or '1')
    except ValueError:
        seed = 1
    cases = all_cases(tier, seed)
    return [Task('options', _run, quick=len(cases), thorough=len(cases),
                 cases=cases)]


def replay(task, case, rec):
    case = dict(case)
    case['cenv'] = dict(next(c[2] for c in COMPILERS
                             if c[0] == case['compiler']))
    check_case(rec, case)
