"""C01 — Make backend: every argument reaches the spawned process unchanged.
See vf/argdeliv.py for the machinery shared with the other backend."""
import os

from ..runner import Task, run_hypothesis
from .. import argdeliv

ID = 'C01'
BACKEND = 'make'
LEVEL = 'exploration'
TECHNIQUE = ('property-based testing (Hypothesis): substitution-metamorphic '
             'differential of recorded argv/environ (stub programs) between a '
             'placeholder run and runs with generated special strings, '
             'executed by ' + ('GNU Make + /bin/sh' if BACKEND == 'make' else
                               'the reference Ninja evaluator + /bin/sh'))
RULE = ('One script template with 49 argument positions (command/cmds words, '
        'environment values of command/build_step/test/test_driver, nested '
        'test-driver children, compile/link options in list and string form, '
        'global options, a word given both globally and per target, options '
        'of multi-output steps (versioned library, yacc grammar), define '
        'values, include/library directory names, file arguments, the '
        'install prefix, CFLAGS/CPPFLAGS/LDFLAGS/LDLIBS/YFLAGS taken from the '
        'environment); 3..49 '
        'positions per case receive strings from an alphabet weighted towards '
        'Make-, sh- and Ninja-special characters, non-ASCII and a curated '
        'token list, one string in ten long (up to ~130 characters, with a '
        'run of blanks or a token inside) (no NUL/CR/LF).  Non-trivial: some argument contains a '
        'special character' + (' incl. one of $ : space' if BACKEND == 'ninja'
                               else '') + '; distinct = sorted list of '
        '(position label, special-character set).')
LEVEL_TEXT = ('Generated-input search with a metamorphic/differential oracle: '
              'the argv and environment of every process the backend starts '
              'are recorded by stub programs and compared with the placeholder '
              'run under substitution and with the literal lists of the '
              'script; failures are localised to one position and character.')
LEVEL_NOTE = ('Trusted: the recording stubs (self-tested round trip), GNU Make '
              '4.3 and dash' + ('' if BACKEND == 'make' else
                                ', and the reference Ninja evaluator '
                                '(tools/refninja, 63 self-tests) instead of '
                                'ninja itself') + '.')
ASSUMPTIONS = ['arguments never contain NUL, CR or LF (property text)',
               'include/library directory names additionally exclude / and a '
               'leading ~ or -']
TRUSTED_BASE = ['tools/src/rec.c', 'GNU Make 4.3', '/bin/sh (dash)'] + (
    ['tools/refninja (reference Ninja evaluator, not ninja itself)']
    if BACKEND == 'ninja' else [])


def selftest():
    argdeliv.selftest(BACKEND)


def _run(rec, seed, budget, shard, nshards):
    run_hypothesis(rec, argdeliv.cases(), argdeliv.make_prop(rec, BACKEND),
                   budget, seed,
                   shrink=False)


def tasks(tier):
    return [Task('deliver', _run, quick=16 * 10, thorough=16 * 250)]


def replay(task, case, rec):
    argdeliv.replay_case(BACKEND, case, rec)
