"""C12 — Path algebra: normalised, root-confined, invertible, separator-agnostic.

Generated path strings are judged against oracles built only from
posixpath/ntpath string functions (never from BasePath itself).
"""
import posixpath

from hypothesis import strategies as st

from ..runner import Task, Violation, run_hypothesis

ID = 'C12'
LEVEL = 'exploration'
TECHNIQUE = ('property-based testing (Hypothesis): algebraic laws and a '
             'posixpath reference model over generated path strings')
RULE = ('Path strings are built constructively from components {empty, ., .., '
        'names, dotted names, names with spaces/unicode} joined by / or \\ '
        'with optional trailing separator, leading separator and drive; roots '
        'are srcdir, builddir, absolute, every InstallRoot and a Path as '
        'root; both PosixPath and WindowsPath.  A case is non-trivial when '
        'some generated string contains a "..", an empty or "." component, a '
        'backslash, a drive or a trailing separator; distinct = hash of the '
        '(law group, flavour, root, abstracted component shapes).')
LEVEL_TEXT = ('Generated-input search: six groups of algebraic laws and a posixpath '
              'reference model are evaluated on tens of thousands of generated '
              'path strings per run for both path flavours and every root; '
              'absence of violations is evidence, not proof.')
LEVEL_NOTE = ('Trusted: posixpath/ntpath string functions as the meaning of '
              '"ordinary joining"; the generator excludes ~-leading names, UNC '
              'double separators and relative drive syntax.')
ASSUMPTIONS = [
    'posixpath.normpath/join/relpath are the reference for "ordinary path '
    'joining"',
    'names starting with ~ (user expansion), UNC-style leading double '
    'separators and a colon in second position of a relative path (drive '
    'syntax) are outside the generated domain',
]

ROOTNAME = '@ROOT@'

_name_alpha = st.sampled_from(list('abcxyz019._- ~+:') + ['é', '日', '.'])


@st.composite
def names(draw):
    n = draw(st.one_of(
        st.sampled_from(['a', 'b', 'ab', 'cd', 'x.y', '.x', 'x.', '...',
                         '..x', 'x..', 'a b', ' ', 'foo.tar.gz', 'a.c',
                         'a.cpp', 'PAR', '-n', 'a~']),
        st.text(_name_alpha, min_size=1, max_size=5)))
    if n in ('.', '..'):
        n = n + 'n'
    if n[0] == '~':
        n = 'n' + n
    if ':' in n[:2] or (len(n) > 1 and n[1] == ':'):
        n = n.replace(':', 'c', 2) if ':' in n[:2] else n
    return n


comps = st.one_of(
    names(), names(), names(),
    st.sampled_from(['', '.', '..', '..', '.']))
seps = st.sampled_from(['/', '/', '/', '\\'])


@st.composite
def relstrings(draw, min_comps=0, max_comps=6, first_nonempty=False):
    cs = draw(st.lists(comps, min_size=min_comps, max_size=max_comps))
    if first_nonempty and cs and cs[0] == '':
        cs[0] = 'q'
    if cs and cs[0] == '':
        # a leading empty component would make the string absolute
        cs[0] = '.'
    out = ''
    for i, c in enumerate(cs):
        if i:
            out += draw(seps)
        out += c
    if draw(st.integers(0, 3)) == 0 and out:
        out += draw(seps)
    return out


@st.composite
def absstrings(draw, drive=None):
    body = draw(relstrings(first_nonempty=True))
    if body.startswith(('/', '\\')):
        body = 'q' + body
    d = ''
    if drive is None:
        drive = draw(st.integers(0, 3)) == 0
    if drive:
        d = draw(st.sampled_from(['C:', 'c:', 'Z:']))
    return d + draw(seps) + body


ROOTS = ['srcdir', 'builddir', 'prefix', 'exec_prefix', 'bindir', 'libdir',
         'includedir', 'datadir', 'mandir']
roots = st.sampled_from(ROOTS)
flavours = st.sampled_from(['posix', 'windows'])


def get_cls(flavour):
    if flavour == 'posix':
        from bfg9000.platforms.posix import PosixPath
        return PosixPath
    from bfg9000.platforms.windows import WindowsPath
    return WindowsPath


def get_root(name):
    from bfg9000.platforms.basepath import Root, InstallRoot
    if name == 'absolute':
        return Root.absolute
    try:
        return Root[name]
    except KeyError:
        return InstallRoot[name]


def shape(s):
    """Abstract a path string to its component shapes."""
    out = []
    if len(s) > 1 and s[1] == ':':
        out.append('D')
        s = s[2:]
    for c in s.replace('\\', '/').split('/'):
        out.append({'': 'E', '.': 'C', '..': 'P'}.get(
            c, 'n' + ('.' if '.' in c else '') + (' ' if ' ' in c else '')))
    return ''.join(out) + ('\\' if '\\' in s else '')


def interesting(*strings):
    for s in strings:
        t = s.replace('\\', '/')
        bits = t.split('/')
        if ('\\' in s or '..' in bits or '.' in bits or '' in bits or
                (len(s) > 1 and s[1] == ':')):
            return True
    return False


def labels(*strings):
    labs = set()
    for s in strings:
        bits = s.replace('\\', '/').split('/')
        if '..' in bits:
            labs.add('has-pardir')
        if '.' in bits:
            labs.add('has-curdir')
        if '' in bits[1:-1]:
            labs.add('has-empty-component')
        if s.endswith(('/', '\\')):
            labs.add('trailing-sep')
        if '\\' in s:
            labs.add('backslash')
        if len(s) > 1 and s[1] == ':':
            labs.add('drive')
        if s.startswith(('/', '\\')):
            labs.add('absolute')
    return labs


# --------------------------------------------------------------------------
# reference model

def model_construct(s, base_suffix=''):
    """(accepted, suffix, isdir) for a *relative* string s below a root,
    computed with posixpath only."""
    t = s.replace('\\', '/')
    last = t.rsplit('/', 1)[-1]
    full = posixpath.normpath('/' + ROOTNAME + '/' + base_suffix + '/' + t)
    if full == '/' + ROOTNAME:
        return True, '', True
    if full.startswith('/' + ROOTNAME + '/'):
        return True, full[len(ROOTNAME) + 2:], last in ('', '.', '..')
    return False, None, None


def model_abs(s):
    t = s.replace('\\', '/')
    drive = ''
    if len(t) > 1 and t[1] == ':':
        drive, t = t[:2], t[2:]
    last = t.rsplit('/', 1)[-1]
    n = posixpath.normpath(t)
    return drive + n, last in ('', '.', '..')


def check_normalised(p, what, case):
    suffix = p.suffix
    body = suffix
    if len(body) > 1 and body[1] == ':':
        body = body[2:]
    bits = body.split('/')
    if p.root.name == 'absolute':
        ok = body.startswith('/') and all(
            b not in ('', '.', '..') for b in bits[1:]) or body == '/'
    else:
        ok = suffix == '' or all(b not in ('', '.', '..') for b in bits)
    if not ok or '\\' in suffix:
        raise Violation('normalised/' + what,
                        'suffix {!r} is not normalised'.format(suffix), case)


def mk(cls, d):
    """Build a path from a JSON-able description."""
    if d.get('base') is not None:
        base = cls(d['base'], get_root(d['root']), d.get('destdir'))
        return cls(d['s'], base)
    return cls(d['s'], get_root(d['root']), d.get('destdir'))


@st.composite
def path_descs(draw, allow_abs=True, min_comps=0):
    kind = draw(st.integers(0, 9))
    if allow_abs and kind == 0:
        return {'s': draw(absstrings()), 'root': 'absolute',
                'destdir': draw(st.booleans())}
    root = draw(roots)
    destdir = root not in ('srcdir', 'builddir') and draw(st.booleans())
    d = {'s': draw(relstrings(min_comps=min_comps)), 'root': root,
         'destdir': destdir}
    if kind == 1:
        d['base'] = draw(relstrings())
    return d


def valid(cls, d):
    """Construct or return None when the model says the input is rejected."""
    try:
        return mk(cls, d)
    except ValueError:
        return None


# --------------------------------------------------------------------------
# law groups

def prop_construct(rec):
    def prop(case):
        cls = get_cls(case['flavour'])
        d = case['p']
        s = d['s']
        rec.case(labels(s, d.get('base') or ''),
                 nontrivial=(['construct', case['flavour'], d['root'],
                              shape(s), shape(d.get('base') or '')]
                             if interesting(s, d.get('base') or '') else None),
                 sample=case)
        if d['root'] == 'absolute':
            exp_suffix, exp_dir = model_abs(s)
            p = mk(cls, d)
            if p.suffix != exp_suffix or p.root.name != 'absolute':
                raise Violation('construct/absolute', 'got {!r}, model {!r}'
                                .format(p.suffix, exp_suffix), case)
            if bool(p.directory) != exp_dir and exp_suffix[-1:] != '/':
                raise Violation('construct/absolute-dirflag',
                                'directory={} model={}'.format(
                                    p.directory, exp_dir), case)
            check_normalised(p, 'absolute', case)
            return
        base_suffix = ''
        if d.get('base') is not None:
            ok, base_suffix, _ = model_construct(d['base'])
            try:
                cls(d['base'], get_root(d['root']), d.get('destdir'))
                got_ok = True
            except ValueError:
                got_ok = False
            if ok != got_ok:
                raise Violation('construct/containment',
                                'base {!r}: accepted={} model={}'.format(
                                    d['base'], got_ok, ok), case)
            if not ok:
                return
        ok, exp_suffix, exp_dir = model_construct(s, base_suffix)
        try:
            p = mk(cls, d)
        except ValueError as e:
            if ok:
                raise Violation('construct/containment',
                                'rejected ({}) but stays under root as {!r}'
                                .format(e, exp_suffix), case)
            return
        if not ok:
            raise Violation('construct/containment',
                            'accepted as {!r} but escapes root'.format(
                                p.suffix), case)
        if p.suffix != exp_suffix:
            raise Violation('construct/normalise', 'got {!r}, model {!r}'
                            .format(p.suffix, exp_suffix), case)
        if p.root.name != d['root'] or bool(p.destdir) != bool(d['destdir']):
            raise Violation('construct/root', 'root/destdir changed', case)
        if bool(p.directory) != exp_dir:
            raise Violation('construct/dirflag', 'directory={} model={}'
                            .format(p.directory, exp_dir), case)
        check_normalised(p, 'relative', case)
        # idempotence: rebuilding from the suffix gives an equal path
        q = cls(p.suffix, p.root, p.destdir)
        if q != p or q.suffix != p.suffix:
            raise Violation('construct/idempotent',
                            'Path(p.suffix, p.root) != p', case)
        # separators are interchangeable
        for alt in (s.replace('/', '\\'), s.replace('\\', '/')):
            d2 = dict(d, s=alt)
            r = mk(cls, d2)
            if r != p or bool(r.directory) != bool(p.directory):
                raise Violation('construct/separator',
                                '{!r} and {!r} give different paths'.format(
                                    s, alt), case)
    return prop


def prop_inverse(rec):
    def prop(case):
        cls = get_cls(case['flavour'])
        p = valid(cls, case['p'])
        s = case['p']['s']
        rec.case(labels(s) | ({'rejected'} if p is None else set()),
                 nontrivial=(['inverse', case['flavour'], case['p']['root'],
                              shape(s), shape(case['c'])]
                             if interesting(s, case['c']) else None),
                 sample=case)
        if p is None:
            return
        # parent().append(basename()) == p
        if p.suffix and p.suffix != '/' and not p.suffix.endswith(':/'):
            try:
                q = p.parent().append(p.basename())
            except ValueError as e:
                raise Violation('inverse/parent-append-raises' +
                                ('/drive' if p.has_drive() else ''),
                                'parent().append(basename()) raised {!r} for '
                                '{!r}'.format(e, p), case)
            if q != p:
                raise Violation('inverse/parent-append',
                                '{!r} -> {!r}'.format(p, q), case)
            if not p.parent().directory:
                raise Violation('inverse/parent-dirflag',
                                'parent is not a directory', case)
        # append(c).parent() == p for a single ordinary component c
        c = case['c']
        q = p.append(c)
        if q.basename() != c:
            raise Violation('inverse/append-basename',
                            'append({!r}).basename() == {!r}'.format(
                                c, q.basename()), case)
        try:
            back = q.parent()
        except ValueError as e:
            raise Violation('inverse/append-parent-raises' +
                            ('/drive' if p.has_drive() else ''),
                            'append({!r}).parent() raised {!r}'.format(c, e),
                            case)
        if back != p:
            raise Violation('inverse/append-parent', '{!r} -> {!r}'.format(
                p, back), case)
        if q.root != p.root or q.destdir != p.destdir:
            raise Violation('inverse/append-root', 'root changed', case)
        # append of a multi-component relative string agrees with the model
        r = case['r']
        if p.root.name != 'absolute':
            ok, exp, _ = model_construct(r, p.suffix)
            try:
                got = p.append(r)
            except ValueError:
                got = None
            if ok != (got is not None):
                raise Violation('inverse/append-containment',
                                'append({!r}) accepted={} model={}'.format(
                                    r, got is not None, ok), case)
            if got is not None and got.suffix != exp:
                raise Violation('inverse/append-model', 'append({!r}) = {!r} '
                                'model {!r}'.format(r, got.suffix, exp), case)
        # splitleaf / split
        if p.suffix and p.root.name != 'absolute':
            if posixpath.sep.join(p.split()) != p.suffix:
                raise Violation('inverse/split', 'split() does not rejoin',
                                case)
        # stripext().addext(ext()) == p
        q = p.stripext().addext(p.ext())
        if q != p or bool(q.directory) != bool(p.directory):
            raise Violation('inverse/ext', 'stripext().addext(ext()) = {!r} '
                            'for {!r}'.format(q, p), case)
    return prop


def prop_relpath(rec):
    def prop(case):
        cls = get_cls(case['flavour'])
        a = valid(cls, case['a'])
        b = valid(cls, case['b'])
        rec.case(labels(case['a']['s'], case['b']['s']) |
                 ({'rejected'} if a is None or b is None else set()),
                 nontrivial=(['relpath', case['flavour'], case['a']['root'],
                              shape(case['a']['s']), shape(case['b']['s'])]
                             if interesting(case['a']['s'], case['b']['s'])
                             else None),
                 sample=case)
        if a is None or b is None:
            return
        if a.root.name != 'absolute' and a.root != b.root:
            try:
                a.relpath(b)
            except ValueError:
                return
            raise Violation('relpath/root-mismatch',
                            'relpath across roots did not raise', case)
        rel = a.relpath(b)
        if a.root.name == 'absolute':
            # documented: absolute paths stay absolute
            # (destdir is not part of a relative path; compare locations)
            back = b.append(rel)
            if (back.suffix, back.root) != (a.suffix, a.root):
                raise Violation('relpath/absolute', 'b.append(a.relpath(b)) = '
                                '{!r} != {!r}'.format(back, a), case)
            return
        # reference: ordinary relative path computation
        exp = posixpath.relpath('/' + ROOTNAME + '/' + a.suffix,
                                '/' + ROOTNAME + '/' + b.suffix)
        if rel.replace('\\', '/') != exp:
            raise Violation('relpath/model', 'relpath = {!r}, model {!r}'
                            .format(rel, exp), case)
        if case['flavour'] == 'windows' and '/' in rel:
            raise Violation('relpath/localize', 'not localized: {!r}'
                            .format(rel), case)
        # b.append(a.relpath(b)) == a whenever the detour stays inside root
        # (it always does: the relative path never climbs above the common
        # ancestor of a and b)
        try:
            back = b.append(rel)
        except ValueError as e:
            raise Violation('relpath/append-raises',
                            'b.append(a.relpath(b)) raised {!r}'.format(e),
                            case)
        if (back.suffix, back.root) != (a.suffix, a.root) or \
                (a.destdir == b.destdir and back != a):
            raise Violation('relpath/append', 'b.append(a.relpath(b)) = {!r} '
                            '!= {!r}'.format(back, a), case)
        # prefix form
        pre = a.relpath(b, prefix='$ORIGIN', localize=False)
        if exp == '.':
            ok = pre == '$ORIGIN'
        else:
            ok = pre == '$ORIGIN/' + exp
        if not ok:
            raise Violation('relpath/prefix', 'prefix form {!r} (rel {!r})'
                            .format(pre, exp), case)
    return prop


def prop_json_hash(rec):
    def prop(case):
        cls = get_cls(case['flavour'])
        a = valid(cls, case['a'])
        b = valid(cls, case['b'])
        rec.case(labels(case['a']['s'], case['b']['s']),
                 nontrivial=(['json', case['flavour'], case['a']['root'],
                              case['a'].get('destdir'), case['dirflag'],
                              shape(case['a']['s'])]
                             if interesting(case['a']['s']) else None),
                 sample=case)
        if a is None:
            return
        if case['dirflag']:
            a = a.as_directory()
        data = a.to_json()
        import json
        data = json.loads(json.dumps(data))
        back = cls.from_json(data)
        if back != a:
            raise Violation('json/roundtrip', '{!r} -> {!r} -> {!r}'.format(
                a, data, back), case)
        if bool(back.directory) != bool(a.directory):
            raise Violation('json/directory', 'directory flag lost: {!r}'
                            .format(data), case)
        if back.root != a.root or back.destdir != a.destdir or \
                back.suffix != a.suffix:
            raise Violation('json/fields', 'fields differ: {!r}'.format(data),
                            case)
        if hash(back) != hash(a):
            raise Violation('hash/roundtrip', 'hash differs after round trip',
                            case)
        if b is not None:
            if (a == b) and hash(a) != hash(b):
                raise Violation('hash/eq', 'a == b but hashes differ', case)
            same = (a.suffix == b.suffix and a.root == b.root and
                    bool(a.destdir) == bool(b.destdir))
            if (a == b) != same or (a != b) == same:
                raise Violation('eq/fields', '== disagrees with field '
                                'equality', case)
            # set/dict membership consistent with ==
            if (b in {a}) != (a == b):
                raise Violation('hash/set', 'set membership disagrees with ==',
                                case)
        # a differently spelled string for the same location is equal
        alt = a.suffix
        if alt and a.root.name != 'absolute':
            spelled = './' + alt.replace('/', '//') + ('/' if a.directory
                                                       else '')
            c = cls(spelled, a.root, a.destdir)
            if c != a or hash(c) != hash(a):
                raise Violation('eq/spelling', '{!r} != {!r}'.format(c, a),
                                case)
    return prop


BASEDIRS = {
    'srcdir': '/abs/src dir', 'builddir': '/abs/build',
    'prefix': '/usr/local', 'exec_prefix': '/usr/local',
    'bindir': '/usr/local/bin', 'libdir': '/opt/my lib',
    'includedir': '/usr/local/include', 'datadir': '/usr/local/share',
    'mandir': '/usr/local/share/man',
}


def prop_realize(rec):
    def prop(case):
        from bfg9000.platforms.basepath import DestDir
        cls = get_cls(case['flavour'])
        p = valid(cls, case['p'])
        rec.case(labels(case['p']['s']),
                 nontrivial=(['realize', case['flavour'], case['p']['root'],
                              case['p'].get('destdir'), case['with_destdir'],
                              shape(case['p']['s'])]
                             if interesting(case['p']['s']) else None),
                 sample=case)
        if p is None:
            return
        variables = {get_root(k): v for k, v in BASEDIRS.items()}
        dest = ''
        if case['with_destdir']:
            variables[DestDir.destdir] = '/stage dir'
            if p.destdir:
                dest = '/stage dir'
        got = p.string(variables)
        if p.root.name == 'absolute':
            exp = dest + p.suffix
        else:
            exp = dest + posixpath.normpath(posixpath.join(
                BASEDIRS[p.root.name], p.suffix))
        if case['flavour'] == 'windows':
            exp = exp.replace('/', '\\')
        if got != exp:
            raise Violation('realize/string', 'string() = {!r}, ordinary join '
                            'gives {!r}'.format(got, exp), case)
        # realize with nested Path variables (as the install dirs are stored)
        from bfg9000.platforms.basepath import Root, InstallRoot
        nested = {
            Root.srcdir: '/abs/src dir', Root.builddir: '/abs/build',
            InstallRoot.prefix: cls('/usr/local/', Root.absolute),
            InstallRoot.exec_prefix: cls('', InstallRoot.prefix),
            InstallRoot.bindir: cls('bin/', InstallRoot.exec_prefix),
            InstallRoot.libdir: cls('/opt/my lib', Root.absolute),
            InstallRoot.includedir: cls('include', InstallRoot.prefix),
            InstallRoot.datadir: cls('share', InstallRoot.prefix),
            InstallRoot.mandir: cls('man', InstallRoot.datadir),
        }
        got2 = p.string(nested)
        exp2 = exp if not dest else exp[len(dest):]
        if got2 != exp2:
            raise Violation('realize/nested', 'string(nested) = {!r}, expected'
                            ' {!r}'.format(got2, exp2), case)
    return prop


def _comps(p):
    # (the root directory of an absolute path, `/` or `C:/`, splits with a
    # trailing empty component: it is the directory above `/a`, `C:/a`)
    c = p.split()
    return c[:-1] if len(c) > 1 and c[-1] == '' else c


def _ancestor_or_self(anc, p):
    a, b = _comps(anc), _comps(p)
    return anc.root == p.root and a == b[:len(a)]


def prop_setops(rec):
    def prop(case):
        from bfg9000.path import commonprefix, uniquetrees
        cls = get_cls(case['flavour'])
        ps = [valid(cls, d) for d in case['paths']]
        ps = [p for p in ps if p is not None]
        strings = [d['s'] for d in case['paths']]
        rec.case(labels(*strings) | {'n={}'.format(min(len(ps), 4))},
                 nontrivial=(['setops', case['flavour'],
                              sorted(shape(s) for s in strings)]
                             if len(ps) >= 2 else None),
                 sample=case)
        if not ps:
            return
        cp = commonprefix(ps)
        if any(p.root != ps[0].root for p in ps):
            if cp is not None:
                raise Violation('commonprefix/mixed-roots', 'expected None',
                                case)
        else:
            if cp is None:
                raise Violation('commonprefix/none', 'None for equal roots',
                                case)
            for p in ps:
                if not _ancestor_or_self(cp, p):
                    raise Violation('commonprefix/not-ancestor',
                                    '{!r} is not an ancestor of {!r}'.format(
                                        cp, p), case)
            # no deeper common ancestor
            splits = [_comps(p) for p in ps]
            n = len(_comps(cp))
            if all(len(s) > n for s in splits) and \
                    len({s[n] for s in splits}) == 1:
                raise Violation('commonprefix/not-deepest',
                                '{!r} is not the deepest common ancestor'
                                .format(cp), case)
        ut = uniquetrees(ps)
        for u in ut:
            if not any(u is p or u == p for p in ps):
                raise Violation('uniquetrees/invented', '{!r} not in input'
                                .format(u), case)
        for p in ps:
            if not any(_ancestor_or_self(u, p) for u in ut):
                raise Violation('uniquetrees/uncovered', '{!r} not covered by '
                                '{!r}'.format(p, ut), case)
        for i, u in enumerate(ut):
            for j, v in enumerate(ut):
                if i != j and _ancestor_or_self(u, v):
                    raise Violation('uniquetrees/not-minimal',
                                    '{!r} is inside {!r}'.format(v, u), case)
    return prop


def strategy_for(group):
    if group == 'construct':
        return st.fixed_dictionaries({'flavour': flavours, 'p': path_descs()})
    if group == 'inverse':
        return st.fixed_dictionaries({
            'flavour': flavours, 'p': path_descs(), 'c': names(),
            'r': relstrings()})
    if group == 'relpath':
        @st.composite
        def pair(draw):
            fl = draw(flavours)
            a = draw(path_descs())
            b = draw(path_descs(allow_abs=False))
            if draw(st.integers(0, 9)) != 0:
                if a['root'] == 'absolute':
                    pass
                else:
                    b['root'] = a['root']
                    b['destdir'] = a['destdir']
            return {'flavour': fl, 'a': a, 'b': b}
        return pair()
    if group == 'json_hash':
        @st.composite
        def pair(draw):
            a = draw(path_descs())
            b = draw(st.one_of(path_descs(), st.just(dict(a))))
            if draw(st.booleans()):
                b = dict(b, root=a['root'], destdir=a['destdir'])
                if a['root'] == 'absolute' and not b['s'].startswith(
                        ('/', '\\')) and b['s'][1:2] != ':':
                    b['s'] = '/' + b['s']
            return {'flavour': draw(flavours), 'a': a, 'b': b,
                    'dirflag': draw(st.booleans())}
        return pair()
    if group == 'realize':
        return st.fixed_dictionaries({
            'flavour': flavours, 'p': path_descs(),
            'with_destdir': st.booleans()})
    if group == 'setops':
        @st.composite
        def many(draw):
            root = draw(st.sampled_from(ROOTS + ['absolute', 'absolute',
                                                 'absolute']))
            n = draw(st.integers(1, 6))
            aprefix = draw(st.sampled_from(['/', '/', 'C:/', '//srv/share/']))
            out = []
            for _ in range(n):
                d = draw(path_descs(allow_abs=False))
                d.pop('base', None)
                if draw(st.integers(0, 7)) != 0:
                    d['root'] = root
                d['destdir'] = False
                # small name pool so that prefixes really coincide
                if draw(st.booleans()):
                    d['s'] = '/'.join(draw(st.lists(
                        st.sampled_from(['a', 'b', 'ab', 'a.b']), min_size=0,
                        max_size=4)))
                if d['root'] == 'absolute':
                    # absolute paths: from the root, a drive or a share
                    d['s'] = aprefix + d['s'].lstrip('/\\')
                out.append(d)
            return {'flavour': draw(flavours), 'paths': out}
        return many()
    raise KeyError(group)


PROPS = {
    'construct': prop_construct, 'inverse': prop_inverse,
    'relpath': prop_relpath, 'json_hash': prop_json_hash,
    'realize': prop_realize, 'setops': prop_setops,
}


def _run(rec, seed, budget, shard, nshards, group):
    run_hypothesis(rec, strategy_for(group), PROPS[group](rec), budget, seed)


def tasks(tier):
    return [Task(g, _run, quick=16 * 500, thorough=16 * 25000, group=g)
            for g in PROPS]


def replay(task, case, rec):
    PROPS[task](rec)(case)
