import sys
import traceback

from vf import runner

if __name__ == '__main__':
    try:
        rc = runner.main()
    except SystemExit:
        raise
    except BaseException:
        print('HARNESS-ERROR: runner crashed')
        traceback.print_exc()
        rc = 2
    sys.exit(rc)
