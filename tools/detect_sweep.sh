#!/bin/sh
# tools/detect_sweep.sh <VERIF_SEED> <seed-dir...>: detection only (no confirmation) of seeded changes at
# another seed value: which changes are caught whatever the seed is.
seed=$1; shift
for d in "$@"; do
  name=$(basename "$d"); prop=${name%%-*}
  out=$(VERIF_SEED=$seed "$(dirname "$0")/try_patch.sh" "$d/patch.diff" "$prop" 2>&1)
  rc=$(echo "$out" | sed -n 's/^mutant exit=//p')
  echo "$name seed=$seed detect_rc=$rc $(echo "$out" | grep -m1 -o 'key=[^ ]*')"
done
