# Read by every `make` the checks start (through $MAKEFILES): a Makefile that
# keeps remaking itself makes GNU Make re-execute forever; stop after 8
# restarts with an error instead of running into the harness time-out.
ifneq ($(MAKE_RESTARTS),)
ifeq ($(shell test $(MAKE_RESTARTS) -gt 8 && echo loop),loop)
$(error vf: make restarted itself $(MAKE_RESTARTS) times: the makefiles never become up to date)
endif
endif
