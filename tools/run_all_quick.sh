#!/bin/sh
# tools/run_all_quick.sh [seed...]: every check, quick tier, on the current tree
cd "$(dirname "$0")/.."
for seed in ${@:-1}; do
  for id in C01 C02 C03 C04 C05 C06 C07 C08 C09 C10 C11 C12 C13 C14 C15 C16 C17 C18 C19 C20; do
    out=$(VERIF_SEED=$seed PYTHONHASHSEED=0 ./check $id --tier quick 2>&1); rc=$?
    echo "seed=$seed $id rc=$rc $(echo "$out" | grep -v KNOWN-FINDING | tail -1 | cut -c1-160)"
    if [ $rc -ne 0 ]; then bad=1; echo "$out" | grep -v KNOWN-FINDING | tail -5 | cut -c1-600; fi
  done
done
exit ${bad:-0}
