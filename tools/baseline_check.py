#!/venv/bin/python
"""Run the repository's baseline test suite (guard off) and compare with
/root/.vp/BASELINE.json: every stable-pass test must still pass."""
import json, os, subprocess, sys, tempfile
import xml.etree.ElementTree as ET
repo = sys.argv[1] if len(sys.argv) > 1 else '/repo'
base = json.load(open('/root/.vp/BASELINE.json'))
stable = base['stable_pass']
if isinstance(stable, str):
    import ast; stable = ast.literal_eval(stable)
with tempfile.TemporaryDirectory() as d:
    xml = os.path.join(d, 'j.xml')
    env = dict(os.environ); env.pop('BFG9000_VERIF', None); env['PYTHONPATH'] = repo
    subprocess.run(['/venv/bin/python', '-m', 'pytest', '-q', '-p', 'no:cacheprovider',
                    '--timeout=900', '--continue-on-collection-errors', '-x' if False else '-q',
                    '--junitxml=' + xml, 'test/unit'], cwd=repo, env=env,
                   stdout=subprocess.DEVNULL, stderr=subprocess.DEVNULL)
    passed = set()
    for tc in ET.parse(xml).getroot().iter('testcase'):
        if not any(c.tag in ('failure', 'error', 'skipped') for c in tc):
            passed.add('{}::{}'.format(tc.get('classname'), tc.get('name')))
missing = [t for t in stable if t not in passed]
print('baseline: {} stable, {} passed now, {} missing'.format(len(stable), len(passed), len(missing)))
for m in missing[:20]: print('  MISSING', m)
sys.exit(1 if missing else 0)
