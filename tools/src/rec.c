/* Recording stub used by the end-to-end checks (DESIGN.md S3).
 *
 * One binary, several personalities chosen by basename(argv[0]):
 *   cc, c++, gcc, g++ : gcc-like compiler/linker stub.  Answers the probes
 *                       bfg9000 makes at configure time; an invocation with
 *                       -c or -o is logged, creates the -o output and writes
 *                       the -MF depfile (gcc escaping) listing the inputs.
 *   lex               : flex-like stub: creates the -o output.
 *   yacc              : bison-like stub: creates the -o and --defines= outputs.
 *   ar                : archiver stub: "ar <flags> out in..." creates out.
 *   cp, ln            : log, then exec the real tool.
 *   anything else     : pure recorder; creates the files named by
 *                       --vf-out=PATH arguments, exits with $VF_REC_EXIT.
 * Every logged invocation appends ONE line of JSON to $VF_LOG:
 *   {"tool": name, "cwd": hex, "argv": [hex...], "env": {name: hex}}
 * (hex so that arbitrary bytes survive).
 */
#include <errno.h>
#include <fcntl.h>
#include <libgen.h>
#include <stdio.h>
#include <stdlib.h>
#include <string.h>
#include <sys/stat.h>
#include <unistd.h>

extern char **environ;

static char *buf; static size_t len, cap;
static void put(const char *s, size_t n) {
    if (len + n + 1 > cap) { cap = (cap + n + 1) * 2; buf = realloc(buf, cap); }
    memcpy(buf + len, s, n); len += n; buf[len] = 0;
}
static void puts_(const char *s) { put(s, strlen(s)); }
static void puthex(const char *s, size_t n) {
    static const char *h = "0123456789abcdef";
    put("\"", 1);
    for (size_t i = 0; i < n; i++) { char c[2] = { h[(unsigned char)s[i] >> 4], h[s[i] & 15] }; put(c, 2); }
    put("\"", 1);
}
static int is_ident(const char *s, size_t n) {
    for (size_t i = 0; i < n; i++)
        if (!((s[i] >= 'A' && s[i] <= 'Z') || (s[i] >= 'a' && s[i] <= 'z') || (s[i] >= '0' && s[i] <= '9') || s[i] == '_')) return 0;
    return n > 0;
}
static void log_invocation(const char *tool, int argc, char **argv) {
    const char *path = getenv("VF_LOG");
    if (!path) return;
    char cwd[4096]; if (!getcwd(cwd, sizeof cwd)) cwd[0] = 0;
    puts_("{\"tool\": \""); puts_(tool); puts_("\", \"cwd\": "); puthex(cwd, strlen(cwd));
    puts_(", \"argv\": [");
    for (int i = 0; i < argc; i++) { if (i) puts_(", "); puthex(argv[i], strlen(argv[i])); }
    puts_("], \"env\": {");
    int first = 1;
    for (char **e = environ; *e; e++) {
        char *eq = strchr(*e, '='); if (!eq) continue;
        size_t nl = (size_t)(eq - *e);
        if (!first) puts_(", ");
        first = 0;
        if (is_ident(*e, nl)) { put("\"", 1); put(*e, nl); put("\"", 1); }
        else { puts_("\"hex:"); static const char *h = "0123456789abcdef";
               for (size_t i = 0; i < nl; i++) { char c[2] = { h[(unsigned char)(*e)[i] >> 4], h[(*e)[i] & 15] }; put(c, 2); }
               put("\"", 1); }
        puts_(": "); puthex(eq + 1, strlen(eq + 1));
    }
    puts_("}}\n");
    int fd = open(path, O_WRONLY | O_APPEND | O_CREAT, 0644);
    if (fd >= 0) { ssize_t r = write(fd, buf, len); (void)r; close(fd); }
}
static int create_file(const char *path, int argc, char **argv) {
    FILE *f = fopen(path, "w");
    if (!f) { fprintf(stderr, "stub: cannot create %s: %s\n", path, strerror(errno)); return 1; }
    for (int i = 0; i < argc; i++) fprintf(f, "%s\n", argv[i]);
    fclose(f); return 0;
}
static void put_dep_escaped(FILE *f, const char *s) {
    for (; *s; s++) {
        if (*s == ' ' || *s == '#') fputc('\\', f);
        if (*s == '$') fputc('$', f);
        fputc(*s, f);
    }
}
static int has_suffix(const char *s, const char *suf) {
    size_t a = strlen(s), b = strlen(suf); return a >= b && strcmp(s + a - b, suf) == 0;
}
static int is_source(const char *s) {
    return has_suffix(s, ".c") || has_suffix(s, ".cpp") || has_suffix(s, ".cc") || has_suffix(s, ".cxx") ||
           has_suffix(s, ".C") || has_suffix(s, ".h") || has_suffix(s, ".hpp");
}
static int compiler(const char *tool, int argc, char **argv) {
    int build = 0; const char *out = NULL, *mf = NULL;
    for (int i = 1; i < argc; i++) {
        if (!strcmp(argv[i], "--version")) { printf("%s (GCC) 12.2.0\nCopyright (C) 2022 Free Software Foundation, Inc.\n", tool); return 0; }
        if (!strcmp(argv[i], "-?")) { fprintf(stderr, "%s: error: unrecognized command-line option '-?'\n", tool); return 1; }
        if (!strcmp(argv[i], "-dumpmachine")) { printf("x86_64-linux-gnu\n"); return 0; }
        if (!strcmp(argv[i], "-dumpversion")) { printf("12\n"); return 0; }
        if (!strcmp(argv[i], "-print-search-dirs")) { printf("install: /usr/lib/\nprograms: =/usr/bin\nlibraries: =/usr/lib\n"); return 0; }
        if (!strncmp(argv[i], "-print-", 7)) { printf("\n"); return 0; }
        if (!strcmp(argv[i], "-Wp,-v")) {
            /* the preprocessor's search list: CPATH, then the language's own variable, then the built-in directory */
            const char *vars[2] = { "CPATH", strstr(tool, "++") ? "CPLUS_INCLUDE_PATH" : "C_INCLUDE_PATH" };
            fprintf(stderr, "#include \"...\" search starts here:\n#include <...> search starts here:\n");
            for (int v = 0; v < 2; v++) {
                const char *val = getenv(vars[v]);
                if (!val) continue;
                char *copy = strdup(val), *save = NULL;
                for (char *t = strtok_r(copy, ":", &save); t; t = strtok_r(NULL, ":", &save))
                    fprintf(stderr, " %s\n", t);
                free(copy);
            }
            fprintf(stderr, " /usr/include\nEnd of search list.\n");
            return 0;
        }
        if (!strcmp(argv[i], "-c")) build = 1;
        if (!strcmp(argv[i], "-o") && i + 1 < argc) { build = 1; out = argv[i + 1]; }
        if (!strcmp(argv[i], "-MF") && i + 1 < argc) mf = argv[i + 1];
    }
    if (!build) return 0;          /* some other probe */
    log_invocation(tool, argc, argv);
    const char *fail = getenv("VF_STUB_FAIL");
    if (fail && out && strstr(out, fail)) { fprintf(stderr, "stub: asked to fail on %s\n", out); return 1; }
    if (out && create_file(out, argc, argv)) return 1;
    if (mf && out) {
        FILE *f = fopen(mf, "w");
        if (!f) { fprintf(stderr, "stub: cannot create %s: %s\n", mf, strerror(errno)); return 1; }
        put_dep_escaped(f, out); fputc(':', f);
        for (int i = 1; i < argc; i++) {
            if (argv[i][0] == '-') { if ((!strcmp(argv[i], "-o") || !strcmp(argv[i], "-MF") || !strcmp(argv[i], "-include") || !strcmp(argv[i], "-x")) ) i++; continue; }
            if (is_source(argv[i])) { fputc(' ', f); put_dep_escaped(f, argv[i]); }
        }
        /* extra headers a test asked for: VF_STUB_DEPS = "obj-substring=header;..." */
        const char *extra = getenv("VF_STUB_DEPS");
        if (extra) {
            char *copy = strdup(extra), *save = NULL;
            for (char *t = strtok_r(copy, ";", &save); t; t = strtok_r(NULL, ";", &save)) {
                char *eq = strchr(t, '='); if (!eq) continue; *eq = 0;
                if (strstr(out, t)) { fputc(' ', f); put_dep_escaped(f, eq + 1); }
            }
            free(copy);
        }
        fputc('\n', f); fclose(f);
    }
    return 0;
}
static int archiver(int argc, char **argv) {
    if (argc >= 2 && !strcmp(argv[1], "--version")) { printf("GNU ar (GNU Binutils) 2.40\n"); return 0; }
    log_invocation("ar", argc, argv);
    if (argc >= 3) return create_file(argv[2], argc, argv);
    return 0;
}
int main(int argc, char **argv) {
    char *self = strdup(argv[0]); const char *tool = basename(self);
    if (!strcmp(tool, "cc") || !strcmp(tool, "c++") || !strcmp(tool, "gcc") || !strcmp(tool, "g++"))
        return compiler(tool, argc, argv);
    if (!strcmp(tool, "ar")) return archiver(argc, argv);
    if (!strcmp(tool, "lex")) {
        /* flex-like stub: "lex [flags] -o out in" writes an empty scanner */
        if (argc >= 2 && !strcmp(argv[1], "--version")) { printf("flex 2.6.4\n"); return 0; }
        log_invocation(tool, argc, argv);
        for (int i = 1; i < argc; i++)
            if (!strcmp(argv[i], "-o") && i + 1 < argc) {
                FILE *f = fopen(argv[++i], "w");   /* a valid (empty) C file */
                if (!f) { fprintf(stderr, "stub: cannot create %s\n", argv[i]); return 1; }
                fputs("/* scanner */\n", f); fclose(f);
            }
        return 0;
    }
    if (!strcmp(tool, "yacc")) {
        /* bison-like stub: "yacc [flags] in -o out [--defines=hdr]" */
        if (argc >= 2 && !strcmp(argv[1], "--version")) { printf("bison (GNU Bison) 3.8.2\n"); return 0; }
        log_invocation(tool, argc, argv);
        for (int i = 1; i < argc; i++) {
            if (!strcmp(argv[i], "-o") && i + 1 < argc && create_file(argv[++i], argc, argv)) return 1;
            else if (!strncmp(argv[i], "--defines=", 10) && create_file(argv[i] + 10, argc, argv)) return 1;
        }
        return 0;
    }
    if (!strcmp(tool, "clangw")) {
        int build = 0;
        for (int i = 1; i < argc; i++)
            if (!strcmp(argv[i], "-c") || !strcmp(argv[i], "-o")) build = 1;
        if (build) log_invocation(tool, argc, argv);
        argv[0] = (char *)"clang";
        execv("/usr/bin/clang", argv);
        perror("stub: exec"); return 127;
    }
    if (!strcmp(tool, "gccw") || !strcmp(tool, "g++w")) {
        /* logging wrapper around the real compiler (C07) */
        int build = 0;
        for (int i = 1; i < argc; i++)
            if (!strcmp(argv[i], "-c") || !strcmp(argv[i], "-o")) build = 1;
        if (build) log_invocation(tool, argc, argv);
        const char *real = !strcmp(tool, "gccw") ? "/usr/bin/gcc" : "/usr/bin/g++";
        argv[0] = (char *)(!strcmp(tool, "gccw") ? "gcc" : "g++");
        execv(real, argv);
        perror("stub: exec"); return 127;
    }
    if (!strcmp(tool, "doppel") || !strcmp(tool, "patchelf")) {
        log_invocation(tool, argc, argv);
        char real[64]; snprintf(real, sizeof real, "/venv/bin/%s", tool);
        execv(real, argv);
        snprintf(real, sizeof real, "/usr/bin/%s", tool);
        execv(real, argv);
        perror("stub: exec"); return 127;
    }
    if (!strcmp(tool, "cp") || !strcmp(tool, "ln")) {
        /* logging wrappers around the real tools */
        log_invocation(tool, argc, argv);
        char real[64]; snprintf(real, sizeof real, "/bin/%s", tool);
        execv(real, argv);
        snprintf(real, sizeof real, "/usr/bin/%s", tool);
        execv(real, argv);
        perror("stub: exec"); return 127;
    }
    log_invocation(tool, argc, argv);
    for (int i = 1; i < argc; i++)
        if (!strncmp(argv[i], "--vf-out=", 9) && create_file(argv[i] + 9, argc, argv)) return 1;
    const char *ex = getenv("VF_REC_EXIT");
    return ex ? atoi(ex) : 0;
}
