#!/venv/bin/python3
"""Self-tests for refninja: small hand-written manifests with expected
results, derived from statements in the Ninja manual.

Run:  /venv/bin/python /verif/tools/refninja/selftest.py   (exit 0 iff all pass)
API:  run_selftests() -> list of failure strings
"""
import json
import os
import shutil
import subprocess
import sys
import tempfile
import time

HERE = os.path.dirname(os.path.realpath(__file__))
if HERE not in sys.path:
    sys.path.insert(0, HERE)
NINJA = os.path.join(os.path.dirname(HERE), 'bin', 'ninja')

import refninja  # noqa: E402

TESTS = []


def test(fn):
    TESTS.append(fn)
    return fn


class Result(object):
    def __init__(self, rc, out, err, trace):
        self.rc, self.out, self.err, self.trace = rc, out, err, trace
        self.edges = [t for t in trace if 'outputs' in t]
        self.ran = [t['outputs'][0] for t in self.edges]
        self.cmds = [t['command'] for t in self.edges]
        self.reloads = sum(1 for t in trace if t.get('event') == 'reload')

    def __repr__(self):
        return 'rc=%r out=%r err=%r ran=%r' % (self.rc, self.out, self.err,
                                               self.ran)


class T(object):
    """Per-test sandbox: build dir self.dir inside a temp root."""

    def __init__(self, name):
        self.name = name
        self.root = tempfile.mkdtemp(prefix='refninja-selftest-')
        self.dir = os.path.join(self.root, 'b')
        os.mkdir(self.dir)
        self.tracefile = os.path.join(self.root, 'trace.jsonl')
        self.failures = []

    def cleanup(self):
        shutil.rmtree(self.root, ignore_errors=True)

    def p(self, rel):
        return os.path.join(self.dir, rel)

    def _newest(self):
        newest = 0
        for dp, dns, fns in os.walk(self.dir):
            for fn in fns + dns:
                try:
                    m = os.lstat(os.path.join(dp, fn)).st_mtime_ns
                except OSError:
                    continue
                newest = max(newest, m)
        return newest

    def write(self, rel, content=''):
        """Write a file so that its mtime is strictly greater than that of
        every file currently in the build dir."""
        newest = self._newest()
        path = self.p(rel)
        d = os.path.dirname(path)
        if not os.path.isdir(d):
            os.makedirs(d)
        while True:
            with open(path, 'w') as f:
                f.write(content)
            if os.stat(path).st_mtime_ns > newest:
                return
            time.sleep(0.001)

    def manifest(self, text, name='build.ninja'):
        self.write(name, text)

    def exists(self, rel):
        return os.path.lexists(self.p(rel))

    def read(self, rel):
        with open(self.p(rel)) as f:
            return f.read()

    def remove(self, rel):
        os.unlink(self.p(rel))

    def ninja(self, *args, **kw):
        env = dict(os.environ)
        env['REFNINJA_TRACE'] = self.tracefile
        env.update(kw.get('env', {}))
        if os.path.exists(self.tracefile):
            os.unlink(self.tracefile)
        p = subprocess.Popen([NINJA] + list(args), cwd=kw.get('cwd', self.dir),
                             env=env, stdin=subprocess.DEVNULL,
                             stdout=subprocess.PIPE, stderr=subprocess.PIPE)
        out, err = p.communicate()
        trace = []
        if os.path.exists(self.tracefile):
            with open(self.tracefile) as f:
                trace = [json.loads(l) for l in f if l.strip()]
        return Result(p.returncode, out.decode('utf-8', 'replace'),
                      err.decode('utf-8', 'replace'), trace)

    def commands(self, *targets):
        r = self.ninja('-t', 'commands', *targets)
        self.eq(r.rc, 0, '-t commands rc (%r)' % r)
        return r.out.splitlines()

    def check(self, cond, msg):
        if not cond:
            self.failures.append('%s: %s' % (self.name, msg))
        return cond

    def eq(self, got, want, what):
        return self.check(got == want,
                          '%s: got %r, want %r' % (what, got, want))

    def has(self, text, sub, what):
        return self.check(sub in text, '%s: %r not in %r' % (what, sub, text))


CP = 'rule cp\n  command = cp $in $out\n'
CAT = 'rule cat\n  command = cat $in > $out\n'
TOUCH = 'rule touch\n  command = touch $out\n'


# ---------------------------------------------------------------- scoping

@test
def t_toplevel_immediate_expansion(t):
    # Manual: top-level variables are expanded immediately; rule variables
    # late (so they see the final file-scope value).
    t.manifest('a = 1\nb = $a\na = 2\n'
               'rule r\n  command = echo $b $a\n'
               'build o: r\n'
               'a = 3\n')
    t.eq(t.commands(), ['echo 1 3'], 'commands')


@test
def t_build_level_shadowing(t):
    # Manual example: variables can be shadowed in the scope of a build.
    t.manifest('cflags = -Wall\n'
               'rule cc\n  command = gcc $cflags -c $in -o $out\n'
               'build foo.o: cc foo.c\n'
               'build special.o: cc special.c\n  cflags = -Wall -Werror\n'
               'default foo.o special.o\n')
    t.eq(t.commands(), ['gcc -Wall -c foo.c -o foo.o',
                        'gcc -Wall -Werror -c special.c -o special.o'],
         'commands')


@test
def t_build_binding_expanded_at_parse(t):
    t.manifest('x = one\n'
               'rule r\n  command = echo $x > $out\n'
               'build o: r\n  x = [$x]\n'
               'x = two\n'
               'build p: r\n')
    t.eq(t.commands('o', 'p'), ['echo [one] > o', 'echo two > p'], 'commands')


@test
def t_build_binding_file_scope_only(t):
    # Ninja evaluates build-level binding values in the file scope: a
    # build binding does not see an earlier binding of the same block.
    t.manifest('a = file\n'
               'rule r\n  command = echo $b\n'
               'build o: r\n  a = edge\n  b = $a\n')
    want = 'echo edge' if refninja.EDGE_BINDINGS_SEE_EARLIER else 'echo file'
    t.eq(t.commands(), [want], 'commands')


@test
def t_build_paths_see_build_bindings(t):
    # Paths on a build line are evaluated after the block's bindings.
    t.manifest('d = top\n'
               'rule r\n  command = touch $out\n'
               'build $d/o: r\n')
    t.eq(t.commands(), ['touch top/o'], 'commands')


@test
def t_undefined_is_empty(t):
    t.manifest('rule r\n  command = echo [$nope][${no.pe}]\nbuild o: r\n')
    t.eq(t.commands(), ['echo [][]'], 'commands')


@test
def t_rule_bindings_see_edge_and_out(t):
    t.manifest('rule r\n  command = cc -MF $depfile $flags $in -o $out\n'
               '  depfile = $out.d\n'
               'build o: r i\n  flags = -O2\n')
    t.eq(t.commands(), ['cc -MF o.d -O2 i -o o'], 'commands')


@test
def t_rule_variable_cycle(t):
    t.manifest('rule r\n  command = $description\n'
               '  description = $command\nbuild o: r\n')
    r = t.ninja()
    t.eq(r.rc, 1, 'rc')
    t.has(r.err, 'cycle in rule variables', 'stderr')


@test
def t_rule_unknown_binding(t):
    t.manifest('rule r\n  command = x\n  foo = bar\nbuild o: r\n')
    r = t.ninja()
    t.eq(r.rc, 1, 'rc')
    t.has(r.err, "build.ninja:3: unexpected variable 'foo'", 'stderr')


# ---------------------------------------------------------------- lexing

@test
def t_escapes(t):
    t.manifest('v.1 = dotted\nv = plain\n'
               'rule r\n'
               '  command = echo $$a $ b $:c ${v.1} $v.1 ${v} x$\n'
               '      y | z : w\n'
               'build o: r\n')
    t.eq(t.commands(), ['echo $a  b :c dotted plain.1 plain xy | z : w'],
         'commands')


@test
def t_bad_escape(t):
    t.manifest('rule r\n  command = echo\nx = a$!b\n')
    r = t.ninja()
    t.eq(r.rc, 1, 'rc')
    t.check(r.err.startswith('ninja: error: build.ninja:3: bad $-escape'),
            'stderr: %r' % r.err)


@test
def t_comments_and_blank_lines(t):
    t.manifest('# top comment\n'
               'rule r\n'
               '  # indented comment inside a block\n'
               '  command = echo hi # not a comment\n'
               '\n'
               '   # indented comment at top level\n'
               'build o: r\n')
    t.eq(t.commands(), ['echo hi # not a comment'], 'commands')


@test
def t_lexer_errors(t):
    t.manifest('\tx = 1\n')
    r = t.ninja()
    t.eq(r.rc, 1, 'tab rc')
    t.has(r.err, 'tabs are not allowed', 'tab stderr')
    t.manifest('rule r\n  command = x')
    r = t.ninja()
    t.eq(r.rc, 1, 'eof rc')
    t.has(r.err, 'unexpected EOF', 'eof stderr')
    t.manifest('build o: nope\n')
    r = t.ninja()
    t.eq(r.rc, 1, 'unknown rule rc')
    t.has(r.err, "build.ninja:1: unknown build rule 'nope'", 'stderr')
    t.manifest('rule r\n  description = x\nbuild o: r\n')
    r = t.ninja()
    t.eq(r.rc, 1, 'no command rc')
    t.has(r.err, "expected 'command =' line", 'stderr')
    t.manifest('rule r\n  command = x\n    y = 1\n  z = 2\n\n  q = 1\n')
    r = t.ninja()
    t.eq(r.rc, 1, 'indent rc')


@test
def t_keyword_prefix_is_identifier(t):
    t.manifest('builds = 1\nrules = 2\nrule r\n  command = echo $builds'
               '$rules\nbuild o: r\n')
    t.eq(t.commands(), ['echo 12'], 'commands')


@test
def t_canonicalize(t):
    c = refninja.canonicalize_path
    for a, b in [('./a/../b//c', 'b/c'), ('a/./b', 'a/b'), ('../a', '../a'),
                 ('a/../..', '..'), ('/a/../b', '/b'), ('a/..', '.'),
                 ('./.', '.'), ('foo/', 'foo'), ('//x', '/x'),
                 ('a/b/../../c', 'c'), ('../../a/../b', '../../b')]:
        t.eq(c(a), b, 'canonicalize(%r)' % a)
    t.manifest(TOUCH + 'build ./x/../sub//o: touch\n'
               'build p: touch sub/./o\n')
    r = t.ninja('-t', 'targets', 'all')
    t.eq(r.out, 'sub/o: touch\np: touch\n', 'targets')
    r = t.ninja('./p')
    t.eq(r.ran, ['sub/o', 'p'], 'ran')


@test
def t_shell_escape(t):
    e = refninja.shell_escape
    t.eq(e('a/b-c_d+e.f'), 'a/b-c_d+e.f', 'safe')
    t.eq(e('a b'), "'a b'", 'space')
    t.eq(e("q'q"), "'q'\\''q'", 'quote')
    t.eq(e('$x'), "'$x'", 'dollar')
    t.eq(e('a:b'), "'a:b'", 'colon')
    t.eq(e(''), '', 'empty')


@test
def t_in_out_quoting(t):
    t.manifest('rule r\n  command = cat $in > $out\n'
               '  rspfile = $out.rsp\n  rspfile_content = $in_newline\n'
               "build out$ 1 | imp: r in$ 1 $$x a$:b q'q | i2 || oo\n")
    t.eq(t.commands(), ["cat 'in 1' '$x' 'a:b' 'q'\\''q' > 'out 1'"],
         'commands')
    r = t.ninja('-t', 'query', 'out 1')
    t.eq(r.out, "out 1:\n  input: r\n    in 1\n    $x\n    a:b\n    q'q\n"
         '    | i2\n    || oo\n  outputs:\n', 'query')


@test
def t_special_paths_built(t):
    t.manifest(CAT + 'build d$ 1/o$:$$x: cat s$ 1\n')
    t.write('s 1', 'data\n')
    r = t.ninja()
    t.eq(r.rc, 0, 'rc %r' % r)
    t.check(t.exists('d 1/o:$x'), 'output with special chars exists')
    t.eq(t.read('d 1/o:$x'), 'data\n', 'content')
    t.eq(t.ninja().out, 'ninja: no work to do.\n', 'second run')


# ---------------------------------------------------------------- errors

@test
def t_multiple_rules_generate(t):
    t.manifest(TOUCH + 'build o: touch\nbuild ./o: touch\n')
    r = t.ninja()
    t.eq(r.rc, 1, 'rc')
    t.check(r.err.startswith('ninja: error: build.ninja:') and
            'multiple rules generate o' in r.err, 'stderr %r' % r.err)


@test
def t_duplicate_rule(t):
    t.manifest(TOUCH + TOUCH)
    r = t.ninja()
    t.eq(r.rc, 1, 'rc')
    t.has(r.err, "build.ninja:3: duplicate rule 'touch'", 'stderr')


@test
def t_missing_input(t):
    t.manifest(CP + 'build o: cp nonexistent\n')
    r = t.ninja()
    t.eq(r.rc, 1, 'rc')
    t.eq(r.err, "ninja: error: 'nonexistent', needed by 'o', missing and no "
         "known rule to make it\n", 'stderr')
    t.eq(r.ran, [], 'nothing ran')


@test
def t_unknown_target(t):
    t.manifest(TOUCH + 'build o: touch\n')
    r = t.ninja('zzz')
    t.eq(r.rc, 1, 'rc')
    t.eq(r.err, "ninja: error: unknown target 'zzz'\n", 'stderr')
    t.manifest(TOUCH + 'build o: touch\ndefault zzz\n')
    r = t.ninja()
    t.eq(r.rc, 1, 'default rc')
    t.has(r.err, "build.ninja:4: unknown target 'zzz'", 'default stderr')


@test
def t_dependency_cycle(t):
    t.manifest(CP + 'build a: cp b\nbuild b: cp a\n')
    r = t.ninja('a')
    t.eq(r.rc, 1, 'rc')
    t.has(r.err, 'dependency cycle: a -> b -> a', 'stderr')


@test
def t_required_version(t):
    t.manifest('ninja_required_version = 1.3\n' + TOUCH + 'build o: touch\n')
    t.eq(t.ninja().rc, 0, 'old version ok')
    t.manifest('ninja_required_version = 1.11.1\n' + TOUCH)
    t.eq(t.ninja('-t', 'targets', 'all').rc, 0, 'same version ok')
    t.manifest('ninja_required_version = 1.12\n' + TOUCH)
    r = t.ninja()
    t.eq(r.rc, 1, 'newer version rc')
    t.has(r.err, 'incompatible with build file ninja_required_version',
          'stderr')


@test
def t_unsupported(t):
    t.manifest('rule r\n  command = x\n  deps = gcc\nbuild o | p: r\n')
    r = t.ninja()
    t.eq(r.rc, 1, 'deps with several outputs rc')
    t.has(r.err, "multiple outputs aren't (yet?) supported by depslog",
          'deps with several outputs')
    r = t.ninja('-t', 'targets', env={'NINJA_STATUS': '%e '})
    t.eq(r.rc, 2, 'custom NINJA_STATUS')
    for text, what in [
            (TOUCH + 'build o: touch |@ v\nbuild v: touch\n', 'validation'),
            ('rule r\n  command = x\n  dyndep = dd\nbuild o: r\n', 'dyndep'),
            ('rule r\n  command = x\n  deps = msvc\nbuild o: r\n', 'msvc')]:
        t.manifest(text)
        r = t.ninja()
        t.eq(r.rc, 2, what + ' rc')
        t.check(r.err.startswith('refninja: unsupported:'),
                what + ' stderr %r' % r.err)
    t.manifest(TOUCH + 'build o: touch\n')
    r = t.ninja('-t', 'graph')
    t.eq(r.rc, 2, 'tool rc')
    t.check(r.err.startswith('refninja: unsupported:'), 'tool stderr')
    r = t.ninja('o^')
    t.eq(r.rc, 2, 'caret rc')


# ---------------------------------------------------------------- execution

@test
def t_basic_build_and_rebuild(t):
    t.manifest(CP + 'build mid: cp src\nbuild out: cp mid\n')
    t.write('src', '1\n')
    r = t.ninja()
    t.eq((r.rc, r.ran), (0, ['mid', 'out']), 'first')
    t.eq(r.out, '[1/2] cp src mid\n[2/2] cp mid out\n', 'first stdout')
    r = t.ninja()
    t.eq((r.rc, r.ran, r.out), (0, [], 'ninja: no work to do.\n'), 'second')
    t.write('src', '2\n')
    r = t.ninja()
    t.eq(r.ran, ['mid', 'out'], 'after edit')
    t.eq(t.read('out'), '2\n', 'content')
    t.remove('out')
    r = t.ninja()
    t.eq(r.ran, ['out'], 'after removing output')


@test
def t_dirs_created(t):
    t.manifest(CAT + 'build a/b/c/o | x/y/imp: cat s\n')
    t.write('s', 's')
    r = t.ninja()
    t.eq(r.rc, 0, 'rc %r' % r)
    t.check(t.exists('a/b/c/o'), 'output in created dir')
    t.check(os.path.isdir(t.p('x/y')), 'dir of implicit output created')


@test
def t_defaults(t):
    m = TOUCH + 'build a: touch\nbuild b: touch\nbuild c: touch a\n'
    t.manifest(m)
    r = t.ninja('-n')
    t.eq(sorted(r.ran), ['a', 'b', 'c'], 'no default: all root outputs')
    t.manifest(m + 'default b\n')
    t.eq(t.ninja('-n').ran, ['b'], 'default b')
    t.manifest(m + 'default b\ndefault a b\n')
    t.eq(t.ninja('-n').ran, ['a', 'b'], 'several defaults')
    t.eq(t.ninja('-n', 'c').ran, ['a', 'c'], 'explicit target')


@test
def t_deterministic_order(t):
    t.manifest(TOUCH + 'build z: touch y x\nbuild y: touch\nbuild x: touch\n'
               'build w: touch\n')
    r = t.ninja()
    # ready edges run lowest-declared first: y, x, w are ready at the start.
    t.eq(r.ran, ['y', 'x', 'z', 'w'], 'order')


@test
def t_phony_always_dirty_idiom(t):
    # Manual: a phony with no inputs whose file doesn't exist is always dirty.
    t.manifest(TOUCH + 'build FORCE: phony\nbuild o: touch | FORCE\n'
               'build p: touch\n')
    t.eq(t.ninja().ran, ['o', 'p'], 'first')
    t.eq(t.ninja().ran, ['o'], 'second: o again, p not')
    t.eq(t.ninja().ran, ['o'], 'third')
    t.write('FORCE', '')
    t.eq(t.ninja().ran, ['o'], 'FORCE now a (newer) file: one last rebuild')
    t.eq(t.ninja().ran, [], 'FORCE exists as a file: not dirty any more')


@test
def t_phony_alias(t):
    t.manifest(CP + 'build a: cp s\nbuild b: cp s\nbuild all: phony a b\n'
               'build other: cp s\ndefault all\n')
    t.write('s', 's')
    r = t.ninja()
    t.eq(r.ran, ['a', 'b'], 'alias builds its inputs, is not run itself')
    t.check(not t.exists('all'), 'no file for the alias')
    r = t.ninja()
    t.eq((r.ran, r.out), ([], 'ninja: no work to do.\n'), 'second run')
    r = t.ninja('all')
    t.eq(r.out, 'ninja: no work to do.\n', 'explicit alias')


@test
def t_phony_mtime_is_newest_input(t):
    t.manifest(CAT + 'build grp: phony a b\nbuild o: cat c | grp\n')
    t.write('a', 'a')
    t.write('b', 'b')
    t.write('c', 'c')
    t.eq(t.ninja().ran, ['o'], 'first')
    t.eq(t.ninja().ran, [], 'second')
    t.write('b', 'b2')
    t.eq(t.ninja().ran, ['o'], 'input of the phony edited')
    t.eq(t.ninja().ran, [], 'clean again')


@test
def t_order_only(t):
    t.manifest(CAT + 'build gen.h: cat h.in\nbuild o: cat s || gen.h\n')
    t.write('h.in', 'h')
    t.write('s', 's')
    r = t.ninja('o')
    t.eq(r.ran, ['gen.h', 'o'], 'order-only dep built first')
    t.eq(r.cmds[1], 'cat s > o', 'order-only not in $in')
    t.write('h.in', 'h2')
    r = t.ninja('o')
    t.eq(r.ran, ['gen.h'], 'order-only rebuilt, dependent not')
    t.remove('gen.h')
    r = t.ninja('o')
    t.eq(r.ran, ['gen.h'], 'missing order-only rebuilt, dependent not')


@test
def t_implicit_deps(t):
    t.manifest(CAT + 'build o: cat s | hdr\n')
    t.write('s', 's')
    t.write('hdr', 'h')
    r = t.ninja()
    t.eq(r.cmds, ['cat s > o'], 'implicit dep not in $in')
    t.eq(t.ninja().ran, [], 'up to date')
    t.write('hdr', 'h2')
    t.eq(t.ninja().ran, ['o'], 'implicit dep edited')
    t.remove('hdr')
    r = t.ninja()
    t.eq(r.rc, 1, 'missing implicit dep is an error')
    t.has(r.err, "'hdr', needed by 'o', missing and no known rule", 'stderr')


@test
def t_implicit_outputs(t):
    t.manifest('rule two\n  command = cp $in $out && cp $in $out.side\n'
               + CAT + 'build o | o.side: two s\nbuild user: cat o.side\n')
    t.write('s', 's')
    r = t.ninja()
    t.eq(r.ran, ['o', 'user'], 'first')
    t.eq(r.cmds[0], 'cp s o && cp s o.side', 'implicit output not in $out')
    t.eq(r.edges[0]['outputs'], ['o', 'o.side'], 'trace lists all outputs')
    t.remove('o.side')
    t.eq(t.ninja().ran, ['o', 'user'], 'missing implicit output')
    t.eq(t.ninja().ran, [], 'then clean')


@test
def t_command_line_changed(t):
    m = 'rule r\n  command = echo $msg > $out\nbuild o: r\n  msg = %s\n'
    t.manifest(m % 'one')
    t.eq(t.ninja().ran, ['o'], 'first')
    t.eq(t.ninja().ran, [], 'second')
    t.manifest(m % 'two')
    t.eq(t.ninja().ran, ['o'], 'command changed')
    t.eq(t.read('o'), 'two\n', 'content')
    t.eq(t.ninja().ran, [], 'clean again')


@test
def t_missing_log_entry(t):
    t.manifest(TOUCH + 'build o: touch\n'
               'rule g\n  command = touch $out\n  generator = 1\n'
               'build go: g\n')
    t.eq(sorted(t.ninja().ran), ['go', 'o'], 'first')
    t.remove('.ninja_log')
    t.eq(t.ninja().ran, ['o'],
         'no log entry: normal edge dirty, generator edge not')


@test
def t_generator_and_clean(t):
    m = ('rule g\n  command = echo %s > $out\n  generator = 1\n'
         + CAT + 'build cfg: g\nbuild o: cat cfg\n')
    t.manifest(m % 'one')
    t.eq(t.ninja().ran, ['cfg', 'o'], 'first')
    t.manifest(m % 'two')
    t.eq(t.ninja().ran, [], 'changed command does not dirty generator edge')
    r = t.ninja('-t', 'clean')
    t.eq((r.rc, r.out), (0, 'Cleaning... 1 files.\n'), 'clean')
    t.check(t.exists('cfg') and not t.exists('o'), 'generator output kept')
    r = t.ninja('-t', 'clean', '-g')
    t.eq(r.out, 'Cleaning... 1 files.\n', 'clean -g')
    t.check(not t.exists('cfg'), 'generator output removed by -g')


@test
def t_clean_depfile_rspfile(t):
    t.manifest('rule r\n  command = touch $out $out.d $out.rsp.keep\n'
               '  depfile = $out.d\n  rspfile = $out.rsp\n'
               '  rspfile_content = $in\n'
               'build o: r\nbuild al: phony o\n')
    t.eq(t.ninja().rc, 0, 'build')
    t.write('o.rsp', 'left over')
    r = t.ninja('-n', '-t', 'clean')
    t.eq(r.out, 'Cleaning...\nRemove o\nRemove o.d\nRemove o.rsp\n3 files.\n',
         'dry-run clean')
    t.check(t.exists('o'), 'dry-run clean removes nothing')
    r = t.ninja('-t', 'clean')
    t.eq(r.out, 'Cleaning... 3 files.\n', 'clean')
    t.check(not t.exists('o') and not t.exists('o.d') and
            not t.exists('o.rsp') and t.exists('o.rsp.keep'), 'files removed')
    t.eq(t.ninja('-t', 'clean').out, 'Cleaning... 0 files.\n', 'clean again')


@test
def t_dry_run(t):
    t.manifest('rule cat\n  command = cat $in > $out\n'
               '  description = CAT $out\nbuild d/o: cat s\n')
    t.write('s', 's')
    r = t.ninja('-n')
    t.eq((r.rc, r.out), (0, '[1/1] CAT d/o\n'), 'dry run output')
    t.eq(sorted(os.listdir(t.dir)), ['build.ninja', 's'], 'nothing touched')
    t.check(r.edges and r.edges[0].get('dry_run') is True and
            r.edges[0]['rc'] is None, 'trace marks dry-run edges')
    r = t.ninja('-n', '-v')
    t.eq(r.out, '[1/1] cat s > d/o\n', 'dry run -v prints commands')


@test
def t_description_and_verbose(t):
    t.manifest('rule r\n  command = echo out; echo err >&2; touch $out\n'
               '  description = MAKE $out\nbuild o: r\n')
    r = t.ninja()
    t.eq(r.out, '[1/1] MAKE o\nout\nerr\n', 'description + passthrough')
    t.remove('o')
    r = t.ninja('-v')
    t.eq(r.out.splitlines()[0], '[1/1] echo out; echo err >&2; touch o',
         '-v prints the command')


@test
def t_failure_and_keep_going(t):
    t.manifest('rule fail\n  command = echo oops; exit 3\n' + TOUCH +
               'build a: fail\nbuild b: touch\nbuild c: touch a\n'
               'build d: fail\n')
    r = t.ninja()
    t.eq(r.rc, 1, 'rc')
    t.eq(r.ran, ['a'], 'stops after first failure (-k 1)')
    t.eq(r.edges[0]['rc'], 3, 'trace rc')
    t.has(r.out, 'FAILED: a \necho oops; exit 3\noops\n', 'FAILED block')
    t.eq(r.err, 'ninja: build stopped: subcommand failed.\n', 'stderr')
    r = t.ninja('-k', '0')
    t.eq(r.rc, 1, '-k 0 rc')
    t.eq(r.ran, ['a', 'b', 'd'], '-k 0 runs independent edges, not c')
    t.has(r.err, 'cannot make progress due to previous errors', '-k 0 err')
    r = t.ninja('-k', '2')
    t.eq(r.ran, ['a', 'd'], '-k 2 (b already built)')
    t.has(r.err, 'subcommands failed', '-k 2 stderr')


@test
def t_restat(t):
    m = ('rule cpif\n'
         '  command = cmp -s $in $out || cp $in $out\n%s' + CP +
         'build mid: cpif src\nbuild out: cp mid\n')
    t.manifest(m % '  restat = 1\n')
    t.write('src', 'v1')
    t.eq(t.ninja().ran, ['mid', 'out'], 'first')
    t.write('src', 'v1')   # newer mtime, same content
    t.eq(t.ninja().ran, ['mid'], 'restat: unchanged output stops the chain')
    r = t.ninja()
    t.eq((r.ran, r.out), ([], 'ninja: no work to do.\n'),
         'restat: log remembers the input mtime')
    t.write('src', 'v2')
    t.eq(t.ninja().ran, ['mid', 'out'], 'changed output propagates')
    # Same thing without restat: dependents are rebuilt.
    t.manifest(m % '')
    t.ninja()
    t.write('src', 'v2')
    t.eq(t.ninja().ran, ['mid', 'out'], 'without restat')


@test
def t_rspfile(t):
    t.manifest('rule r\n  command = cat $rspfile > $out\n'
               '  rspfile = $out.rsp\n  rspfile_content = $in_newline\n'
               'build o: r a b$ c\n')
    t.write('a', '')
    t.write('b c', '')
    r = t.ninja()
    t.eq(r.rc, 0, 'rc %r' % r)
    t.eq(t.read('o'), "a\n'b c'", 'rspfile content was available')
    t.check(not t.exists('o.rsp'), 'rspfile removed after success')
    t.manifest('rule r\n  command = false\n'
               '  rspfile = $out.rsp\n  rspfile_content = $in\n'
               'build o2: r a\n')
    t.eq(t.ninja().rc, 1, 'failing rc')
    t.check(t.exists('o2.rsp'), 'rspfile kept after failure')
    t.manifest('rule r\n  command = x\n  rspfile = y\nbuild o: r\n')
    r = t.ninja()
    t.eq(r.rc, 1, 'rspfile without content')
    t.has(r.err, 'rspfile and rspfile_content need to be both specified',
          'stderr')


@test
def t_pools(t):
    t.manifest('pool link\n  depth = 2\n'
               'rule r\n  command = touch $out\n  pool = link\n'
               'rule c\n  command = touch $out\n  pool = console\n'
               'build a: r\nbuild b: c\nbuild c: r\n  pool =\n')
    r = t.ninja()
    t.eq((r.rc, r.ran), (0, ['a', 'b', 'c']), 'pools accepted')
    t.has(r.out, '[1/3] touch b\n', 'console edge status printed at start')
    t.manifest('rule r\n  command = x\n  pool = nope\nbuild a: r\n')
    r = t.ninja()
    t.eq(r.rc, 1, 'unknown pool rc')
    t.has(r.err, "unknown pool name 'nope'", 'unknown pool')
    t.manifest('pool p\nrule r\n  command = x\n')
    r = t.ninja()
    t.has(r.err, "expected 'depth =' line", 'pool without depth')
    t.manifest('pool p\n  depth = 1\npool p\n  depth = 1\n')
    t.has(t.ninja().err, "duplicate pool 'p'", 'duplicate pool')


@test
def t_console_pool_inherits_stdio(t):
    t.manifest('rule c\n  command = cat > $out\n  pool = console\n'
               'build o: c\n')
    env = dict(os.environ)
    p = subprocess.Popen([NINJA], cwd=t.dir, env=env, stdin=subprocess.PIPE,
                         stdout=subprocess.PIPE, stderr=subprocess.PIPE)
    p.communicate(b'from stdin')
    t.eq(p.returncode, 0, 'rc')
    t.eq(t.read('o'), 'from stdin', 'console edge reads ninja stdin')


# ---------------------------------------------------------------- depfiles

CC_DEPS = ("rule cc\n"
           "  command = cat $in > $out && "
           "echo '$out: hdr.h sub/hdr\\ 2.h' > $out.d\n"
           "  depfile = $out.d\n%s"
           "build o: cc s\n")


@test
def t_deps_gcc(t):
    t.manifest(CC_DEPS % '  deps = gcc\n')
    t.write('s', 's')
    t.write('hdr.h', 'h')
    t.write('sub/hdr 2.h', 'h')
    t.eq(t.ninja().ran, ['o'], 'first')
    t.check(not t.exists('o.d'), 'depfile deleted with deps = gcc')
    t.check(t.exists('.ninja_deps'), 'deps log written')
    t.eq(t.ninja().ran, [], 'second')
    r = t.ninja('-t', 'query', 'o')
    t.eq(r.out, 'o:\n  input: cc\n    s\n    | hdr.h\n    | sub/hdr 2.h\n'
         '  outputs:\n', 'query shows deps from the log')
    t.write('hdr.h', 'h2')
    t.eq(t.ninja().ran, ['o'], 'header edited')
    t.eq(t.ninja().ran, [], 'clean')
    t.write('sub/hdr 2.h', 'h2')
    t.eq(t.ninja().ran, ['o'], 'header with a space edited')
    t.remove('hdr.h')
    r = t.ninja()
    t.eq((r.rc, r.ran), (0, ['o']), 'deleted header: dirty, not an error')


@test
def t_depfile_without_deps(t):
    t.manifest(CC_DEPS % '')
    t.write('s', 's')
    t.write('hdr.h', 'h')
    t.write('sub/hdr 2.h', 'h')
    t.eq(t.ninja().ran, ['o'], 'first')
    t.check(t.exists('o.d'), 'depfile kept without deps')
    t.check(not t.exists('.ninja_deps') or 'o' not in t.read('.ninja_deps'),
            'nothing in deps log')
    t.eq(t.ninja().ran, [], 'second')
    t.write('hdr.h', 'h2')
    t.eq(t.ninja().ran, ['o'], 'header edited')
    t.remove('hdr.h')
    r = t.ninja()
    t.eq((r.rc, r.ran), (0, ['o']), 'deleted header: dirty, not an error')
    t.write('hdr.h', 'h')
    t.ninja()
    t.eq(t.ninja().ran, [], 'clean')
    t.remove('o.d')
    t.eq(t.ninja().ran, ['o'], 'missing depfile makes the edge dirty')


@test
def t_deps_gcc_no_depfile_written(t):
    t.manifest('rule cc\n  command = cat $in > $out\n  depfile = $out.d\n'
               '  deps = gcc\nbuild o: cc s\n')
    t.write('s', 's')
    r = t.ninja()
    t.eq((r.rc, r.ran), (0, ['o']), 'missing depfile is fine (empty deps)')
    t.eq(t.ninja().ran, [], 'second')
    t.remove('.ninja_deps')
    t.eq(t.ninja().ran, ['o'], 'deps missing from the log: dirty')


@test
def t_depfile_errors(t):
    t.manifest("rule cc\n  command = touch $out && echo 'no colon' > $out.d\n"
               '  depfile = $out.d\n  deps = gcc\nbuild o: cc\n')
    r = t.ninja()
    t.eq(r.rc, 1, 'bad depfile fails the edge')
    t.has(r.out, "expected ':' in depfile", 'message')
    t.has(r.out, 'FAILED: o ', 'FAILED')
    # A syntactically bad depfile read at scan time is a hard error.
    t.manifest('rule cc\n  command = touch $out\n  depfile = $out.d\n'
               'build o: cc\n')
    r = t.ninja()
    t.eq(r.rc, 1, 'bad depfile at load rc')
    t.has(r.err, "ninja: error: o.d: expected ':' in depfile", 'load error')
    t.remove('o.d')
    # depfile (no deps) naming another output: edge stays dirty, no error
    t.manifest("rule cc\n  command = touch $out && echo 'zz: h' > $out.d\n"
               '  depfile = $out.d\nbuild o: cc\n')
    t.eq(t.ninja().rc, 0, 'wrong output rc')
    r = t.ninja()
    t.eq((r.rc, r.ran), (0, ['o']), 'depfile for another output: dirty')


@test
def t_depfile_parser(t):
    pd = refninja.parse_depfile
    cases = [
        ('a.o: b.h c.h\n', (['a.o'], ['b.h', 'c.h'])),
        ('a.o: b.h \\\n  c.h\n', (['a.o'], ['b.h', 'c.h'])),
        ('a\\ b.o: c\\ d.h', (['a b.o'], ['c d.h'])),
        ('a: b\\#c d$$e', (['a'], ['b#c', 'd$e'])),
        ('a b: c', (['a', 'b'], ['c'])),
        ('a: b\nc: d\n', (['a', 'c'], ['b', 'd'])),
        ('a: b c\nb:\nc:\n', (['a'], ['b', 'c'])),
        ('a: b b\n', (['a'], ['b'])),
        ('a : C:/x/y.h\r\n', (['a'], ['C:/x/y.h'])),
        ('a: x\\\\ y', (['a'], ['x\\\\', 'y'])),
        ('a: x\\\\\\ y', (['a'], ['x\\ y'])),
        ('a: dir\\file', (['a'], ['dir\\file'])),
    ]
    for text, want in cases:
        try:
            got = pd(text)
        except ValueError as e:
            got = 'error: %s' % e
        t.eq(got, want, 'parse_depfile(%r)' % text)
    for text, msg in [('a b c\n', "expected ':' in depfile"),
                      ('a: b\nb: c\n', 'inputs may not also have inputs')]:
        try:
            pd(text)
            t.check(False, 'parse_depfile(%r) should fail' % text)
        except ValueError as e:
            t.eq(str(e), msg, 'parse_depfile(%r) error' % text)


# ---------------------------------------------------------------- manifest

REGEN = ('rule regen\n  command = %s\n  generator = 1\n%s'
         '  description = Regenerating\n'
         'build build.ninja: regen build.ninja.in\n' + TOUCH +
         'build a: touch\n')


@test
def t_manifest_self_rebuild(t):
    base = REGEN % ('cp build.ninja.in build.ninja', '')
    t.manifest(base)
    t.write('build.ninja.in', base + 'build b: touch\n')
    r = t.ninja()
    t.eq(r.rc, 0, 'rc %r' % r)
    t.eq([e.get('event') or e['outputs'][0] for e in r.trace],
         ['build.ninja', 'reload', 'a', 'b'], 'regenerate, reload, build')
    t.has(r.out, '[1/1] Regenerating\n', 'description shown')
    r = t.ninja()
    t.eq((r.ran, r.reloads), ([], 0), 'second run: nothing')
    t.write('build.ninja.in', base + 'build c: touch\n')
    r = t.ninja('-n')
    t.eq((r.rc, r.ran, r.reloads), (0, ['build.ninja'], 0),
         'dry run stops after pretending to regenerate')
    t.check(not t.exists('c'), 'dry run built nothing')
    r = t.ninja('-t', 'targets', 'all')
    t.check('c: touch' not in r.out, 'tools do not regenerate the manifest')
    r = t.ninja()
    t.eq((r.ran, r.reloads), (['build.ninja', 'c'], 1), 'real run')
    r = t.ninja('-t', 'clean')
    t.check(t.exists('build.ninja'), 'clean keeps the generated manifest')


@test
def t_manifest_rebuild_restat_unchanged(t):
    base = REGEN % ('cmp -s build.ninja.in build.ninja || '
                    'cp build.ninja.in build.ninja', '  restat = 1\n')
    t.manifest(base)
    t.write('build.ninja.in', base)
    r = t.ninja()
    t.eq((r.rc, r.ran, r.reloads), (0, ['build.ninja', 'a'], 0),
         'regen ran, manifest unchanged: no reload')
    r = t.ninja()
    t.eq((r.ran, r.out), ([], 'ninja: no work to do.\n'), 'second run')


@test
def t_manifest_rebuild_failure(t):
    t.manifest(REGEN % ('false', ''))
    t.write('build.ninja.in', '')
    r = t.ninja()
    t.eq(r.rc, 1, 'rc')
    t.has(r.err, "ninja: error: rebuilding 'build.ninja': subcommand failed",
          'stderr')
    t.eq(r.ran, ['build.ninja'], 'only the regen edge was tried')


@test
def t_include_subninja(t):
    t.manifest('x = top\nrule r\n  command = echo $x $y > $out\n'
               'include inc.ninja\nsubninja sub.ninja\nbuild m: r\n')
    t.write('inc.ninja', 'y = inc\nbuild i: r\n')
    t.write('sub.ninja', 'x = sub\nrule r2\n  command = r2 $x\n'
            'build s: r\nbuild s2: r2\n')
    t.eq(t.commands('i', 's', 's2', 'm'),
         ['echo top inc > i', 'echo sub inc > s', 'r2 sub',
          'echo top inc > m'], 'scoping of include vs subninja')
    t.manifest('include nothere.ninja\n')
    r = t.ninja()
    t.eq(r.rc, 1, 'missing include rc')
    t.has(r.err, "loading 'nothere.ninja': No such file or directory",
          'missing include')


@test
def t_missing_manifest(t):
    r = t.ninja()
    t.eq(r.rc, 1, 'rc')
    t.eq(r.err, "ninja: error: loading 'build.ninja': No such file or "
         "directory\n", 'stderr')


# ---------------------------------------------------------------- CLI / tools

@test
def t_chdir_and_file(t):
    t.write('sub/other.ninja', CAT + 'build o: cat s\n')
    t.write('sub/s', 's')
    r = t.ninja('-C', 'sub', '-f', 'other.ninja', '-j', '4', '-l', '2')
    t.eq(r.rc, 0, 'rc %r' % r)
    t.eq(r.out, "ninja: Entering directory `sub'\n[1/1] cat s > o\n", 'out')
    t.check(t.exists('sub/o') and t.exists('sub/.ninja_log'),
            'outputs and log inside -C dir')
    r = t.ninja('-Csub', '-fother.ninja', '-j4', '-k1', '-v')
    t.has(r.out, 'ninja: no work to do.', 'glued option arguments')
    r = t.ninja('-C', 'nonexistent')
    t.eq(r.rc, 1, 'bad -C rc')
    t.has(r.err, "ninja: fatal: chdir to 'nonexistent'", 'bad -C')
    r = t.ninja('--version')
    t.eq((r.rc, r.out), (0, '1.11.1\n'), '--version')
    r = t.ninja('--frobnicate')
    t.eq(r.rc, 2, 'unknown option is unsupported')


@test
def t_tool_targets_commands_query(t):
    t.manifest(CP + CAT + 'build a: cp s\nbuild b | b2: cat a s2 | i || oo\n'
               'build al: phony b\nbuild oo: cp s\n')
    r = t.ninja('-t', 'targets', 'all')
    t.eq(r.out, 'a: cp\nb: cat\nb2: cat\nal: phony\noo: cp\n', 'targets all')
    r = t.ninja('-t', 'targets', 'rule', 'cp')
    t.eq(r.out, 'a\noo\n', 'targets rule cp')
    r = t.ninja('-t', 'targets', 'rule')
    t.eq(r.out, 's\ns2\ni\n', 'targets rule (sources)')
    r = t.ninja('-t', 'targets')
    t.eq(r.out, 'b2: cat\nal: phony\n', 'targets (depth 1)')
    r = t.ninja('-t', 'targets', 'depth', '2')
    t.eq(r.out, 'b2: cat\n  a: cp\n  s2\n  i\n  oo: cp\n'
         'al: phony\n  b: cat\n', 'targets depth 2')
    t.eq(t.commands(), ['cp s a', 'cp s oo', 'cat a s2 > b'],
         'commands (defaults)')
    t.eq(t.commands('a'), ['cp s a'], 'commands a')
    r = t.ninja('-t', 'commands', '-s', 'al', 'b')
    t.eq(r.out, 'cat a s2 > b\n', 'commands -s')
    r = t.ninja('-t', 'query', 'a')
    t.eq(r.out, 'a:\n  input: cp\n    s\n  outputs:\n    b\n    b2\n', 'query')
    r = t.ninja('-t', 'query', 'nope')
    t.eq(r.rc, 1, 'query unknown')
    r = t.ninja('-t', 'clean', 'nope')
    t.eq(r.rc, 1, 'clean unknown target')


@test
def t_clean_targets_and_rules(t):
    t.manifest(CP + CAT + 'build a: cp s\nbuild b: cat a\nbuild c: cp s\n')
    t.write('s', 's')
    t.ninja()
    r = t.ninja('-t', 'clean', 'b')
    t.eq(r.out, 'Cleaning... 2 files.\n', 'clean target and its inputs')
    t.check(t.exists('c') and t.exists('s') and not t.exists('a'), 'files')
    t.ninja()
    r = t.ninja('-t', 'clean', '-r', 'cp')
    t.eq(r.out, 'Cleaning... 2 files.\n', 'clean -r')
    t.check(t.exists('b') and not t.exists('a') and not t.exists('c'), 'files')
    r = t.ninja('-v', '-t', 'clean')
    t.eq(r.out, 'Cleaning...\nRemove b\n1 files.\n', 'verbose clean')


@test
def t_builddir(t):
    t.manifest('builddir = bd/x\n' + TOUCH + 'build o: touch\n')
    t.eq(t.ninja().ran, ['o'], 'first')
    t.check(t.exists('bd/x/.ninja_log') and not t.exists('.ninja_log'),
            'log lives in $builddir')
    t.eq(t.ninja().ran, [], 'second')


@test
def t_trace_format(t):
    t.manifest('rule r\n  command = echo $out; test $out != b\n'
               'build a: r\nbuild b: r || a\n')
    r = t.ninja()
    t.eq(r.trace, [
        {'outputs': ['a'], 'rule': 'r', 'command': 'echo a; test a != b',
         'rc': 0},
        {'outputs': ['b'], 'rule': 'r', 'command': 'echo b; test b != b',
         'rc': 1}], 'trace')


@test
def t_phony_self_reference(t):
    t.manifest(TOUCH + 'build a: phony a\nbuild o: touch | a\n')
    r = t.ninja('o')
    t.eq((r.rc, r.ran), (0, ['o']), 'self-referencing phony tolerated')
    t.has(r.err, "phony target 'a' names itself as an input", 'warning')


@test
def t_only_needed_edges(t):
    t.manifest(CP + 'build a: cp s\nbuild b: cp a\nbuild c: cp s\n')
    t.write('s', 's')
    t.eq(t.ninja('b').ran, ['a', 'b'], 'only what the target needs')
    t.eq(t.ninja('s').out, 'ninja: no work to do.\n', 'source as a target')
    t.eq(t.ninja().ran, ['c'], 'rest')


# ---------------------------------------------------------------- runner

def _run_one(fn):
    t = T(fn.__name__)
    try:
        fn(t)
    except Exception:
        import traceback
        t.failures.append('%s: exception:\n%s' % (fn.__name__,
                                                  traceback.format_exc()))
    finally:
        t.cleanup()
    return t.failures


def run_selftests(jobs=8):
    """Runs all self-tests; returns a list of failure strings."""
    from concurrent.futures import ThreadPoolExecutor
    failures = []
    with ThreadPoolExecutor(max_workers=max(1, jobs)) as ex:
        for fl in ex.map(_run_one, TESTS):
            failures.extend(fl)
    return failures


def main():
    t0 = time.time()
    failures = run_selftests()
    for f in failures:
        sys.stdout.write('FAIL %s\n' % f)
    sys.stdout.write('%d self-tests, %d failed checks, %.1f s\n'
                     % (len(TESTS), len(failures), time.time() - t0))
    return 1 if failures else 0


if __name__ == '__main__':
    sys.exit(main())
