#!/venv/bin/python3
"""refninja -- a small reference implementation of the Ninja build tool.

Pure Python 3, stdlib only.  Written from the Ninja manual (and knowledge of
Ninja 1.11 behaviour) as an independent test oracle; it favours faithfulness
over speed.  Anything outside the supported subset raises `Unsupported`
(exit status 2, message `refninja: unsupported: ...`).

Exit codes: 0 success, 1 ninja error / failed build, 2 unsupported construct.
"""
import hashlib
import json
import os
import re
import subprocess
import sys

VERSION = '1.11.1'

# Real Ninja evaluates the value of a build-level binding in the *file* scope
# (`env->AddBinding(key, val.Evaluate(env_))`), i.e. a build binding does not
# see earlier bindings of the same build block.  Set to True for the other
# reading ("sees earlier bindings on the same edge").
EDGE_BINDINGS_SEE_EARLIER = False


class NinjaError(Exception):
    """Reported as `ninja: error: <msg>`, exit 1."""


class NinjaFatal(Exception):
    """Reported as `ninja: fatal: <msg>`, exit 1."""


class Unsupported(Exception):
    """Reported as `refninja: unsupported: <msg>`, exit 2."""


RULE_BINDINGS = frozenset([
    'command', 'depfile', 'dyndep', 'description', 'deps', 'generator',
    'pool', 'restat', 'rspfile', 'rspfile_content', 'msvc_deps_prefix'])


# --------------------------------------------------------------------------
# Utilities

def canonicalize_path(path):
    """Ninja's CanonicalizePath (POSIX flavour)."""
    if not path:
        return path
    absolute = path.startswith('/')
    comps = []
    for c in path.split('/'):
        if c == '' or c == '.':
            continue
        if c == '..':
            if comps and comps[-1] != '..':
                comps.pop()
            else:
                comps.append('..')
            continue
        comps.append(c)
    res = '/'.join(comps)
    if absolute:
        return '/' + res
    return res or '.'


_SHELL_SAFE = re.compile(r'[A-Za-z0-9_+\-./]*\Z')


def shell_escape(s):
    """Ninja's GetShellEscapedString (POSIX)."""
    if _SHELL_SAFE.match(s):
        return s
    return "'" + s.replace("'", "'\\''") + "'"


class EvalString(object):
    """A string with embedded variable references, evaluated lazily."""
    __slots__ = ('parts',)

    def __init__(self):
        self.parts = []  # list of (text, is_var)

    def add_text(self, t):
        if self.parts and not self.parts[-1][1]:
            self.parts[-1] = (self.parts[-1][0] + t, False)
        else:
            self.parts.append((t, False))

    def add_var(self, name):
        self.parts.append((name, True))

    def empty(self):
        return not self.parts

    def evaluate(self, lookup):
        return ''.join(lookup(t) if v else t for t, v in self.parts)

    def __repr__(self):
        return ''.join('${%s}' % t if v else t for t, v in self.parts)


# --------------------------------------------------------------------------
# Lexer

_IDENT = re.compile(r'[a-zA-Z0-9_.-]+')
_SIMPLE_VAR = re.compile(r'[a-zA-Z0-9_-]+')
_BRACE_VAR = re.compile(r'\{([a-zA-Z0-9_.-]+)\}')
_COMMENT = re.compile(r' *#[^\0\n]*\n')
_NEWLINE = re.compile(r' *\r?\n')
_SPACES = re.compile(r' +')
_TEXT = re.compile(r'[^$ :\r\n|\0]+')
_EATWS = re.compile(r'(?: +|\$\r?\n)+')
_NLSPACES = re.compile(r'\r?\n *')

KEYWORDS = ('build', 'pool', 'rule', 'default', 'include', 'subninja')

TOKEN_NAMES = {
    'build': "'build'", 'colon': "':'", 'default': "'default'",
    'equals': "'='", 'ident': 'identifier', 'include': "'include'",
    'indent': 'indent', 'newline': 'newline', 'pipe2': "'||'",
    'pipe': "'|'", 'pipeat': "'|@'", 'pool': "'pool'", 'rule': "'rule'",
    'subninja': "'subninja'", 'eof': 'eof', 'error': 'lexing error'}


class Lexer(object):
    def __init__(self, filename, text):
        self.filename = filename
        self.s = text + '\0'
        self.ofs = 0
        self.last = 0

    def error(self, msg):
        s = self.s
        line = s.count('\n', 0, self.last) + 1
        ls = s.rfind('\n', 0, self.last) + 1
        col = self.last - ls
        le = ls
        while s[le] not in '\n\0':
            le += 1
        out = '%s:%d: %s\n' % (self.filename, line, msg)
        if 0 < col < 72:
            ctx = s[ls:le]
            if len(ctx) > 72:
                ctx = ctx[:72] + '...'
            out += ctx + '\n' + ' ' * col + '^ near here'
        raise NinjaError(out)

    def line(self):
        return self.s.count('\n', 0, self.last) + 1

    def describe_last_error(self):
        if self.s[self.last] == '\t':
            return 'tabs are not allowed, use spaces'
        return 'lexing error'

    def eat_whitespace(self):
        m = _EATWS.match(self.s, self.ofs)
        if m:
            self.ofs = m.end()

    def read_token(self):
        s = self.s
        while True:
            m = _COMMENT.match(s, self.ofs)
            if not m:
                break
            self.ofs = m.end()
        start = self.ofs
        self.last = start
        m = _NEWLINE.match(s, start)
        if m:
            self.ofs = m.end()
            return 'newline'
        c = s[start]
        if c == ' ':
            self.ofs = _SPACES.match(s, start).end()
            tok = 'indent'
        elif c == '=':
            self.ofs = start + 1
            tok = 'equals'
        elif c == ':':
            self.ofs = start + 1
            tok = 'colon'
        elif c == '|':
            if s[start + 1] == '@':
                self.ofs = start + 2
                tok = 'pipeat'
            elif s[start + 1] == '|':
                self.ofs = start + 2
                tok = 'pipe2'
            else:
                self.ofs = start + 1
                tok = 'pipe'
        elif c == '\0':
            self.ofs = start  # stay at EOF
            return 'eof'
        else:
            m = _IDENT.match(s, start)
            if m:
                self.ofs = m.end()
                tok = m.group() if m.group() in KEYWORDS else 'ident'
            else:
                self.ofs = start + 1
                tok = 'error'
        self.eat_whitespace()
        return tok

    def unread_token(self):
        self.ofs = self.last

    def peek_token(self, tok):
        if self.read_token() == tok:
            return True
        self.unread_token()
        return False

    def read_ident(self):
        self.last = self.ofs
        m = _IDENT.match(self.s, self.ofs)
        if not m:
            return None
        self.ofs = m.end()
        self.eat_whitespace()
        return m.group()

    def read_eval(self, path):
        """ReadEvalString: path=True stops at unescaped space, ':', '|',
        newline (not consumed); path=False reads to (and consumes) newline."""
        ev = EvalString()
        s = self.s
        p = self.ofs
        while True:
            start = p
            m = _TEXT.match(s, p)
            if m:
                ev.add_text(m.group())
                p = m.end()
                continue
            c = s[p]
            if c == '\n' or (c == '\r' and s[p + 1] == '\n'):
                if not path:
                    p += 1 if c == '\n' else 2
                break
            if c in ' :|':
                if path:
                    break
                ev.add_text(c)
                p += 1
                continue
            if c == '$':
                d = s[p + 1]
                if d == '$':
                    ev.add_text('$')
                    p += 2
                    continue
                if d == ' ':
                    ev.add_text(' ')
                    p += 2
                    continue
                if d == ':':
                    ev.add_text(':')
                    p += 2
                    continue
                m = _NLSPACES.match(s, p + 1)
                if m:
                    p = m.end()
                    continue
                if d == '{':
                    m = _BRACE_VAR.match(s, p + 1)
                    if m:
                        ev.add_var(m.group(1))
                        p = m.end()
                        continue
                else:
                    m = _SIMPLE_VAR.match(s, p + 1)
                    if m:
                        ev.add_var(m.group())
                        p = m.end()
                        continue
                self.last = start
                self.error('bad $-escape (literal $ must be written as $$)')
            self.last = start
            if c == '\0':
                self.error('unexpected EOF')
            self.error(self.describe_last_error())
        self.last = start
        self.ofs = p
        if path:
            self.eat_whitespace()
        return ev


# --------------------------------------------------------------------------
# Build graph

class Env(object):
    """A scope of evaluated variables and of rules (BindingEnv)."""

    def __init__(self, parent=None):
        self.vars = {}
        self.rules = {}
        self.parent = parent

    def lookup(self, name):
        e = self
        while e is not None:
            if name in e.vars:
                return e.vars[name]
            e = e.parent
        return ''

    def lookup_rule(self, name):
        e = self
        while e is not None:
            if name in e.rules:
                return e.rules[name]
            e = e.parent
        return None


class Rule(object):
    def __init__(self, name):
        self.name = name
        self.bindings = {}  # name -> EvalString (unevaluated)


class Pool(object):
    def __init__(self, name, depth):
        self.name = name
        self.depth = depth


class Node(object):
    def __init__(self, path, ident):
        self.path = path
        self.id = ident
        self.in_edge = None
        self.out_edges = []
        self.mtime = -1      # -1 unknown, 0 missing, else st_mtime_ns
        self._exists = False  # separate: phony outputs get a fake mtime
        self.dirty = False

    def stat(self):
        try:
            self.mtime = os.stat(self.path).st_mtime_ns or 1
            self._exists = True
        except OSError:
            self.mtime = 0
            self._exists = False
        return self.mtime

    def stat_if_necessary(self):
        if self.mtime == -1:
            self.stat()

    def exists(self):
        return self._exists


class Edge(object):
    def __init__(self, ident, rule, env):
        self.id = ident
        self.rule = rule
        self.env = env            # file scope Env
        self.bindings = None      # build-level bindings (dict) or None
        self.pool = None
        self.inputs = []
        self.implicit_deps = 0
        self.order_only_deps = 0
        self.outputs = []
        self.implicit_outs = 0
        self.outputs_ready = False
        self.deps_loaded = False
        self.deps_missing = False
        self.mark = 0             # 0 none, 1 in stack, 2 done
        self.generated_by_dep_loader = False

    def is_phony(self):
        return self.rule.name == 'phony' and self.rule is PHONY_RULE

    def explicit_inputs(self):
        n = len(self.inputs) - self.implicit_deps - self.order_only_deps
        return self.inputs[:n]

    def non_order_only_inputs(self):
        return self.inputs[:len(self.inputs) - self.order_only_deps]

    def explicit_outputs(self):
        return self.outputs[:len(self.outputs) - self.implicit_outs]

    def is_implicit(self, i):
        n = len(self.inputs)
        return (i >= n - self.order_only_deps - self.implicit_deps and
                i < n - self.order_only_deps)

    def is_order_only(self, i):
        return i >= len(self.inputs) - self.order_only_deps

    def all_inputs_ready(self):
        for i in self.inputs:
            if i.in_edge is not None and not i.in_edge.outputs_ready:
                return False
        return True

    # -- variable lookup (manual: in/out, build-level, rule-level, file) --
    def _lookup(self, var, escape, stack):
        if var == 'in' or var == 'in_newline':
            sep = ' ' if var == 'in' else '\n'
            ps = [n.path for n in self.explicit_inputs()]
            return sep.join(shell_escape(p) if escape else p for p in ps)
        if var == 'out':
            ps = [n.path for n in self.explicit_outputs()]
            return ' '.join(shell_escape(p) if escape else p for p in ps)
        if self.bindings is not None and var in self.bindings:
            return self.bindings[var]
        ev = self.rule.bindings.get(var)
        if ev is not None:
            if var in stack:
                cyc = ' -> '.join(stack[stack.index(var):] + [var])
                raise NinjaFatal('cycle in rule variables: ' + cyc)
            stack.append(var)
            try:
                return ev.evaluate(lambda v: self._lookup(v, escape, stack))
            finally:
                stack.pop()
        return self.env.lookup(var)

    def get_binding(self, key, escape=True):
        return self._lookup(key, escape, [])

    def get_binding_bool(self, key):
        return self.get_binding(key) != ''

    def unescaped_depfile(self):
        return self.get_binding('depfile', escape=False)

    def unescaped_rspfile(self):
        return self.get_binding('rspfile', escape=False)

    def evaluate_command(self, incl_rsp_file=False):
        cmd = self.get_binding('command')
        if incl_rsp_file:
            content = self.get_binding('rspfile_content')
            if content:
                cmd += ';rspfile=' + content
        return cmd


PHONY_RULE = Rule('phony')


class State(object):
    def __init__(self):
        self.env = Env()
        self.env.rules['phony'] = PHONY_RULE
        self.pools = {'': Pool('', 0), 'console': Pool('console', 1)}
        self.nodes = {}
        self.edges = []
        self.defaults = []

    def get_node(self, path):
        n = self.nodes.get(path)
        if n is None:
            n = self.nodes[path] = Node(path, len(self.nodes))
        return n

    def lookup_node(self, path):
        return self.nodes.get(path)

    def add_edge(self, rule, env):
        e = Edge(len(self.edges), rule, env)
        e.pool = self.pools['']
        self.edges.append(e)
        return e

    def root_nodes(self):
        roots = []
        for e in self.edges:
            for o in e.outputs:
                if not o.out_edges:
                    roots.append(o)
        if self.edges and not roots:
            raise NinjaError('could not determine root nodes of build graph')
        return roots

    def default_nodes(self):
        return list(self.defaults) if self.defaults else self.root_nodes()


# --------------------------------------------------------------------------
# Manifest parser

def _warn(msg):
    sys.stderr.write('refninja: warning: %s\n' % msg)


def check_required_version(version):
    def parse(v):
        parts = v.split('.')
        try:
            major = int(re.match(r'\s*[-+]?\d*', parts[0]).group() or 0)
        except ValueError:
            major = 0
        minor = 0
        if len(parts) > 1:
            m = re.match(r'\d+', parts[1])
            minor = int(m.group()) if m else 0
        return major, minor
    if parse(VERSION) < parse(version):
        raise NinjaFatal('ninja version (%s) incompatible with build file '
                         'ninja_required_version version (%s).'
                         % (VERSION, version))


class ManifestParser(object):
    def __init__(self, state, env=None):
        self.state = state
        self.env = env if env is not None else state.env
        self.lx = None

    def load(self, filename, parent_lexer=None):
        try:
            with open(filename, 'rb') as f:
                data = f.read()
        except OSError as e:
            msg = "loading '%s': %s" % (filename, os.strerror(e.errno))
            if parent_lexer is not None:
                parent_lexer.error(msg)
            raise NinjaError(msg)
        text = data.decode('utf-8', 'surrogateescape')
        if '\0' in text:
            raise Unsupported('NUL byte in manifest %s' % filename)
        self.parse(filename, text)

    def expect(self, tok):
        lx = self.lx
        got = lx.read_token()
        if got != tok:
            msg = 'expected %s, got %s' % (TOKEN_NAMES[tok], TOKEN_NAMES[got])
            if tok == 'colon':
                msg += " ($ also escapes ':')"
            lx.error(msg)

    def parse(self, filename, text):
        lx = self.lx = Lexer(filename, text)
        while True:
            tok = lx.read_token()
            if tok == 'pool':
                self.parse_pool()
            elif tok == 'build':
                self.parse_edge()
            elif tok == 'rule':
                self.parse_rule()
            elif tok == 'default':
                self.parse_default()
            elif tok == 'ident':
                lx.unread_token()
                name, val = self.parse_let()
                value = val.evaluate(self.env.lookup)
                if name == 'ninja_required_version':
                    check_required_version(value)
                if name in RULE_BINDINGS:
                    _warn("%s:%d: top-level variable '%s' has the name of a "
                          "rule binding; real ninja lets it shadow the rule's "
                          "binding on edges without build-level bindings, "
                          "refninja follows the manual's lookup order"
                          % (filename, lx.line(), name))
                self.env.vars[name] = value
            elif tok == 'include':
                self.parse_file_include(False)
            elif tok == 'subninja':
                self.parse_file_include(True)
            elif tok == 'error':
                lx.error(lx.describe_last_error())
            elif tok == 'eof':
                return
            elif tok == 'newline':
                pass
            else:
                lx.error('unexpected ' + TOKEN_NAMES[tok])

    def parse_let(self):
        lx = self.lx
        key = lx.read_ident()
        if key is None:
            lx.error('expected variable name')
        self.expect('equals')
        return key, lx.read_eval(False)

    def parse_pool(self):
        lx = self.lx
        name = lx.read_ident()
        if name is None:
            lx.error('expected pool name')
        self.expect('newline')
        if name in self.state.pools:
            lx.error("duplicate pool '%s'" % name)
        depth = -1
        while lx.peek_token('indent'):
            key, val = self.parse_let()
            if key == 'depth':
                ds = val.evaluate(self.env.lookup)
                m = re.match(r'\s*[-+]?\d+', ds)
                depth = int(m.group()) if m else 0
                if depth < 0:
                    lx.error('invalid pool depth')
            else:
                lx.error("unexpected variable '%s'" % key)
        if depth < 0:
            lx.error("expected 'depth =' line")
        self.state.pools[name] = Pool(name, depth)

    def parse_rule(self):
        lx = self.lx
        name = lx.read_ident()
        if name is None:
            lx.error('expected rule name')
        self.expect('newline')
        if name in self.env.rules:
            lx.error("duplicate rule '%s'" % name)
        rule = Rule(name)
        while lx.peek_token('indent'):
            key, val = self.parse_let()
            if key not in RULE_BINDINGS:
                lx.error("unexpected variable '%s'" % key)
            if key == 'dyndep':
                raise Unsupported("'dyndep' binding (rule %s)" % name)
            rule.bindings[key] = val
        rsp = rule.bindings.get('rspfile')
        rspc = rule.bindings.get('rspfile_content')
        if (rsp is None or rsp.empty()) != (rspc is None or rspc.empty()):
            lx.error('rspfile and rspfile_content need to be both specified')
        cmd = rule.bindings.get('command')
        if cmd is None or cmd.empty():
            lx.error("expected 'command =' line")
        self.env.rules[name] = rule

    def _read_paths(self, lst):
        while True:
            ev = self.lx.read_eval(True)
            if ev.empty():
                return
            lst.append(ev)

    def parse_edge(self):
        lx = self.lx
        outs, ins = [], []
        self._read_paths(outs)
        implicit_outs = 0
        if lx.peek_token('pipe'):
            n = len(outs)
            self._read_paths(outs)
            implicit_outs = len(outs) - n
        if not outs:
            lx.error('expected path')
        self.expect('colon')
        rule_name = lx.read_ident()
        if rule_name is None:
            lx.error('expected build command name')
        rule = self.env.lookup_rule(rule_name)
        if rule is None:
            lx.error("unknown build rule '%s'" % rule_name)
        self._read_paths(ins)
        implicit = order_only = 0
        if lx.peek_token('pipe'):
            n = len(ins)
            self._read_paths(ins)
            implicit = len(ins) - n
        if lx.peek_token('pipe2'):
            n = len(ins)
            self._read_paths(ins)
            order_only = len(ins) - n
        if lx.peek_token('pipeat'):
            raise Unsupported('validations (|@) at %s:%d'
                              % (lx.filename, lx.line()))
        self.expect('newline')

        bindings = None
        while lx.peek_token('indent'):
            if bindings is None:
                bindings = {}
            key, val = self.parse_let()
            if key == 'dyndep':
                raise Unsupported("'dyndep' binding at %s:%d"
                                  % (lx.filename, lx.line()))
            if EDGE_BINDINGS_SEE_EARLIER:
                b = bindings
                bindings[key] = val.evaluate(
                    lambda v: b[v] if v in b else self.env.lookup(v))
            else:
                bindings[key] = val.evaluate(self.env.lookup)

        edge = self.state.add_edge(rule, self.env)
        edge.bindings = bindings

        def path_lookup(v):
            if bindings is not None and v in bindings:
                return bindings[v]
            return self.env.lookup(v)

        pool_name = edge.get_binding('pool')
        if pool_name:
            pool = self.state.pools.get(pool_name)
            if pool is None:
                lx.error("unknown pool name '%s'" % pool_name)
            edge.pool = pool

        for ev in outs:
            path = ev.evaluate(path_lookup)
            if not path:
                lx.error('empty path')
            path = canonicalize_path(path)
            node = self.state.get_node(path)
            if node.in_edge is not None:
                lx.error('multiple rules generate ' + path)
            node.in_edge = edge
            edge.outputs.append(node)
        edge.implicit_outs = implicit_outs

        for ev in ins:
            path = ev.evaluate(path_lookup)
            if not path:
                lx.error('empty path')
            node = self.state.get_node(canonicalize_path(path))
            edge.inputs.append(node)
            node.out_edges.append(edge)
        edge.implicit_deps = implicit
        edge.order_only_deps = order_only

        if len(edge.outputs) > 1 and edge.get_binding('deps'):
            lx.error("multiple outputs aren't (yet?) supported by depslog; "
                     "bring this up on the mailing list if it affects you")

        if edge.is_phony():
            # phonycycle=warn: a phony target naming itself as input.
            out = edge.outputs[0]
            if out in edge.inputs:
                n_explicit = len(edge.explicit_inputs())
                idx = [i for i, n in enumerate(edge.inputs) if n is out]
                for i in reversed(idx):
                    if i >= len(edge.inputs) - edge.order_only_deps:
                        edge.order_only_deps -= 1
                    elif i >= n_explicit:
                        edge.implicit_deps -= 1
                    del edge.inputs[i]
                    out.out_edges.remove(edge)
                sys.stderr.write(
                    "ninja: warning: phony target '%s' names itself as an "
                    "input; ignoring [-w phonycycle=warn]\n" % out.path)

    def parse_default(self):
        lx = self.lx
        ev = lx.read_eval(True)
        if ev.empty():
            lx.error('expected target name')
        while True:
            path = ev.evaluate(self.env.lookup)
            if not path:
                lx.error('empty path')
            path = canonicalize_path(path)
            node = self.state.lookup_node(path)
            if node is None:
                lx.error("unknown target '%s'" % path)
            self.state.defaults.append(node)
            ev = lx.read_eval(True)
            if ev.empty():
                break
        self.expect('newline')

    def parse_file_include(self, new_scope):
        lx = self.lx
        ev = lx.read_eval(True)
        if ev.empty():
            lx.error('expected path')
        path = ev.evaluate(self.env.lookup)
        env = Env(self.env) if new_scope else self.env
        sub = ManifestParser(self.state, env)
        sub.load(path, parent_lexer=lx)
        self.expect('newline')


# --------------------------------------------------------------------------
# Build log and deps log (simple JSON formats, private to refninja)

def hash_command(cmd):
    return hashlib.sha1(cmd.encode('utf-8', 'surrogateescape')).hexdigest()


class JsonLog(object):
    def __init__(self, path, magic):
        self.path = path
        self.magic = magic
        self.entries = {}
        self.dirty = False

    def load(self):
        try:
            with open(self.path, 'r') as f:
                data = json.load(f)
            if isinstance(data, dict) and data.get('magic') == self.magic:
                self.entries = data.get('entries', {})
        except (OSError, ValueError):
            self.entries = {}

    def save(self):
        if not self.dirty:
            return
        tmp = self.path + '.tmp%d' % os.getpid()
        with open(tmp, 'w') as f:
            json.dump({'magic': self.magic, 'entries': self.entries}, f,
                      indent=0, sort_keys=True)
        os.replace(tmp, self.path)
        self.dirty = False


class BuildLog(JsonLog):
    """output path -> {'hash': command hash, 'mtime': recorded mtime (ns)}"""

    def __init__(self, path='.ninja_log'):
        JsonLog.__init__(self, path, 'refninja-build-log-1')

    def lookup(self, path):
        return self.entries.get(path)

    def record(self, edge, mtime):
        h = hash_command(edge.evaluate_command(True))
        for o in edge.outputs:
            self.entries[o.path] = {'hash': h, 'mtime': mtime}
        self.dirty = True
        self.save()


class DepsLog(JsonLog):
    """output path -> {'mtime': output mtime (ns), 'deps': [paths]}"""

    def __init__(self, path='.ninja_deps'):
        JsonLog.__init__(self, path, 'refninja-deps-log-1')

    def get_deps(self, path):
        return self.entries.get(path)

    def record(self, path, mtime, deps):
        self.entries[path] = {'mtime': mtime, 'deps': list(deps)}
        self.dirty = True
        self.save()


# --------------------------------------------------------------------------
# Depfile parser (port of Ninja's depfile_parser.in.re)

_DF_PLAIN = re.compile(r'[a-zA-Z0-9+,/_:.~()}{%=@\[\]!\x80-\U0010ffff-]+')
_DF_BS = re.compile(r'\\+')


def parse_depfile(content):
    """Returns (outs, ins); raises ValueError(msg) on error."""
    s = content + '\0'
    outs, ins = [], []
    p = 0
    have_target = False
    parsing_targets = True
    poisoned_input = False
    n = len(s) - 1
    while p < n:
        have_newline = False
        out = []
        while True:
            c = s[p]
            if c == '\\':
                e = _DF_BS.match(s, p).end()
                nb = e - p
                d = s[e]
                if d == ' ':
                    # 2N+1 backslashes plus space -> N backslashes plus space
                    # 2N backslashes plus space -> 2N backslashes, end of name
                    length = nb + 1
                    p = e + 1
                    if length % 2 == 0:
                        out.append('\\' * (length // 2 - 1) + ' ')
                        continue
                    out.append('\\' * nb)
                    break
                if d == '#':
                    out.append('\\' * (nb - 1) + '#')
                    p = e + 1
                    continue
                if d == ':':
                    if s[e + 1] in '\0 \r\n\t':
                        # backslashes, colon, whitespace: plain text, the
                        # colon ends the target
                        out.append('\\' * nb + ':')
                        if s[e + 1] == '\n':
                            have_newline = True
                        p = e + 2 if s[e + 1] != '\0' else e + 1
                        break
                    out.append('\\' * (nb - 1) + ':')
                    p = e + 1
                    continue
                if d == '\n' or (d == '\r' and s[e + 1] == '\n'):
                    # re2c longest match: '\\'+ [^\0\r\n] cannot take the
                    # newline.  With one backslash it's a line continuation;
                    # with more, the leading ones pair with the next
                    # backslash as plain text.
                    if nb == 1:
                        p = e + (1 if d == '\n' else 2)
                        break
                    out.append('\\' * (nb - 1))
                    p = e - 1
                    continue
                if d == '\0' or d == '\r':
                    if nb == 1:
                        p = e  # lone backslash: swallowed
                        break
                    out.append('\\' * (nb - 1))
                    p = e - 1
                    continue
                out.append('\\' * nb + d)
                p = e + 1
                continue
            if c == '$' and s[p + 1] == '$':
                out.append('$')
                p += 2
                continue
            m = _DF_PLAIN.match(s, p)
            if m:
                out.append(m.group())
                p = m.end()
                continue
            if c == '\0':
                break
            if c == '\n':
                have_newline = True
                p += 1
                break
            if c == '\r' and s[p + 1] == '\n':
                have_newline = True
                p += 2
                break
            p += 1  # any other character: swallowed as a separator
            break
        name = ''.join(out)
        is_dependency = not parsing_targets
        if name.endswith(':'):
            name = name[:-1]
            parsing_targets = False
            have_target = True
        if name:
            if name not in ins:
                if is_dependency:
                    if poisoned_input:
                        raise ValueError('inputs may not also have inputs')
                    ins.append(name)
                elif name not in outs:
                    outs.append(name)
            elif not is_dependency:
                poisoned_input = True
        if have_newline:
            parsing_targets = True
            poisoned_input = False
        if s[p] == '\0' and p >= n:
            break
    if not have_target:
        raise ValueError("expected ':' in depfile")
    return outs, ins


def read_text_file(path):
    """Returns file content or None if it does not exist."""
    try:
        with open(path, 'rb') as f:
            return f.read().decode('utf-8', 'surrogateescape')
    except FileNotFoundError:
        return None
    except OSError as e:
        raise NinjaError('%s: %s' % (path, os.strerror(e.errno)))


# --------------------------------------------------------------------------
# Dependency scan (dirtiness), after Ninja's DependencyScan

EXPLAIN = False


def explain(msg):
    if EXPLAIN:
        sys.stderr.write('ninja explain: %s\n' % msg)


class DependencyScan(object):
    def __init__(self, state, build_log, deps_log):
        self.state = state
        self.build_log = build_log
        self.deps_log = deps_log

    # -- implicit dep loading --
    def _add_implicit(self, edge, paths):
        pos = len(edge.inputs) - edge.order_only_deps
        for p in paths:
            node = self.state.get_node(canonicalize_path(p))
            edge.inputs.insert(pos, node)
            pos += 1
            edge.implicit_deps += 1
            node.out_edges.append(edge)
            if node.in_edge is None:
                ph = self.state.add_edge(PHONY_RULE, self.state.env)
                ph.generated_by_dep_loader = True
                ph.outputs.append(node)
                ph.outputs_ready = True
                node.in_edge = ph

    def load_deps(self, edge):
        """True if deps are loaded (or none needed); False -> edge dirty."""
        deps_type = edge.get_binding('deps')
        if deps_type:
            out = edge.outputs[0]
            deps = self.deps_log.get_deps(out.path)
            if deps is None:
                explain("deps for '%s' are missing" % out.path)
                return False
            if out.mtime > deps['mtime']:
                explain("stored deps info out of date for '%s'" % out.path)
                return False
            self._add_implicit(edge, deps['deps'])
            return True
        depfile = edge.unescaped_depfile()
        if depfile:
            return self.load_depfile(edge, depfile)
        return True

    def load_depfile(self, edge, path):
        content = read_text_file(path)
        if not content:
            explain("depfile '%s' is missing" % path)
            return False
        try:
            outs, ins = parse_depfile(content)
        except ValueError as e:
            raise NinjaError('%s: %s' % (path, e))
        if not outs:
            raise NinjaError(path + ': no outputs declared')
        primary = canonicalize_path(outs[0])
        first = edge.outputs[0]
        if first.path != primary:
            explain("expected depfile '%s' to mention '%s', got '%s'"
                    % (path, first.path, primary))
            return False
        opaths = [o.path for o in edge.outputs]
        for o in outs:
            if canonicalize_path(o) not in opaths:
                raise NinjaError(
                    "%s: depfile mentions '%s' as an output, but no such "
                    "output was declared" % (path, o))
        self._add_implicit(edge, ins)
        return True

    # -- dirtiness --
    def recompute_dirty(self, node):
        self._recompute_node_dirty(node, [])

    def _recompute_node_dirty(self, node, stack):
        edge = node.in_edge
        if edge is None:
            if node.mtime != -1:
                return
            node.stat()
            if not node.exists():
                explain('%s has no in-edge and is missing' % node.path)
            node.dirty = not node.exists()
            return
        if edge.mark == 2:
            return
        if edge.mark == 1:
            start = 0
            for i, n in enumerate(stack):
                if n.in_edge is edge:
                    start = i
                    break
            cyc = [n.path for n in stack[start:]]
            cyc[0] = node.path  # as Ninja: make the cycle clear
            cyc.append(node.path)
            raise NinjaError('dependency cycle: ' + ' -> '.join(cyc))
        edge.mark = 1
        stack.append(node)

        dirty = False
        edge.outputs_ready = True
        edge.deps_missing = False
        if not edge.deps_loaded:
            edge.deps_loaded = True
            for o in edge.outputs:
                o.stat_if_necessary()
            if not self.load_deps(edge):
                dirty = edge.deps_missing = True
        else:
            for o in edge.outputs:
                o.stat_if_necessary()

        most_recent = None
        n_in = len(edge.inputs)
        for idx in range(n_in):
            i = edge.inputs[idx]
            self._recompute_node_dirty(i, stack)
            if i.in_edge is not None and not i.in_edge.outputs_ready:
                edge.outputs_ready = False
            if not edge.is_order_only(idx):
                if i.dirty:
                    explain('%s is dirty' % i.path)
                    dirty = True
                elif most_recent is None or i.mtime > most_recent.mtime:
                    most_recent = i

        if not dirty:
            dirty = self.recompute_outputs_dirty(edge, most_recent)
        if dirty:
            for o in edge.outputs:
                o.dirty = True
        if dirty and not (edge.is_phony() and not edge.inputs):
            edge.outputs_ready = False
        edge.mark = 2
        stack.pop()

    def recompute_outputs_dirty(self, edge, most_recent):
        command = edge.evaluate_command(True) if not edge.is_phony() else ''
        for o in edge.outputs:
            if self._output_dirty(edge, most_recent, command, o):
                return True
        return False

    def _output_dirty(self, edge, most_recent, command, output):
        if edge.is_phony():
            if not edge.inputs and not output.exists():
                explain("output %s of phony edge with no inputs doesn't exist"
                        % output.path)
                return True
            if most_recent is not None and not output.exists():
                # UpdatePhonyMtime: only for nonexistent outputs; they stay
                # "missing" but carry the mtime of the newest input.
                output.mtime = max(output.mtime, most_recent.mtime)
            return False
        if not output.exists():
            explain("output %s doesn't exist" % output.path)
            return True
        entry = None
        used_restat = False
        if edge.get_binding_bool('restat') and self.build_log is not None:
            entry = self.build_log.lookup(output.path)
            if entry is not None:
                used_restat = True
        if (not used_restat and most_recent is not None and
                output.mtime < most_recent.mtime):
            explain('output %s older than most recent input %s'
                    % (output.path, most_recent.path))
            return True
        if self.build_log is not None:
            generator = edge.get_binding_bool('generator')
            if entry is None:
                entry = self.build_log.lookup(output.path)
            if entry is not None:
                if not generator and hash_command(command) != entry['hash']:
                    explain('command line changed for %s' % output.path)
                    return True
                if (most_recent is not None and
                        entry['mtime'] < most_recent.mtime):
                    explain('recorded mtime of %s older than most recent '
                            'input %s' % (output.path, most_recent.path))
                    return True
            elif not generator:
                explain('command line not found in log for %s' % output.path)
                return True
        return False


# --------------------------------------------------------------------------
# Plan (which edges to run, in which order), after Ninja's Plan

WANT_NOTHING, WANT_TO_START, WANT_TO_FINISH = 0, 1, 2


class Plan(object):
    def __init__(self):
        self.want = {}
        self.ready = set()
        self.command_edges = 0
        self.wanted_edges = 0

    def more_to_do(self):
        return self.wanted_edges > 0 and self.command_edges > 0

    def add_target(self, node):
        return self._add_sub_target(node, None)

    def _add_sub_target(self, node, dependent):
        edge = node.in_edge
        if edge is None:
            if node.dirty:
                ref = ''
                if dependent is not None:
                    ref = ", needed by '%s'," % dependent.path
                raise NinjaError("'%s'%s missing and no known rule to make it"
                                 % (node.path, ref))
            return False
        if edge.outputs_ready:
            return False
        first = edge not in self.want
        if first:
            self.want[edge] = WANT_NOTHING
        if node.dirty and self.want[edge] == WANT_NOTHING:
            self.want[edge] = WANT_TO_START
            self._edge_wanted(edge)
            if edge.all_inputs_ready():
                self._schedule(edge)
        if not first:
            return True
        for i in list(edge.inputs):
            self._add_sub_target(i, node)
        return True

    def _edge_wanted(self, edge):
        self.wanted_edges += 1
        if not edge.is_phony():
            self.command_edges += 1

    def _schedule(self, edge):
        if self.want[edge] == WANT_TO_FINISH:
            return
        self.want[edge] = WANT_TO_FINISH
        self.ready.add(edge)

    def find_work(self):
        if not self.ready:
            return None
        edge = min(self.ready, key=lambda e: e.id)
        self.ready.remove(edge)
        return edge

    def edge_finished(self, edge, success):
        directly_wanted = self.want[edge] != WANT_NOTHING
        if not success:
            return
        if directly_wanted:
            self.wanted_edges -= 1
        del self.want[edge]
        edge.outputs_ready = True
        for o in edge.outputs:
            for oe in o.out_edges:
                if oe in self.want:
                    self._edge_maybe_ready(oe)

    def _edge_maybe_ready(self, edge):
        if edge.all_inputs_ready():
            if self.want[edge] != WANT_NOTHING:
                self._schedule(edge)
            else:
                self.edge_finished(edge, True)

    def clean_node(self, scan, node):
        """restat: `node` turned out unchanged; un-dirty what depends on it."""
        node.dirty = False
        for oe in node.out_edges:
            w = self.want.get(oe)
            if w is None or w == WANT_NOTHING:
                continue
            if oe.deps_missing:
                continue
            ins = oe.non_order_only_inputs()
            if any(i.dirty for i in ins):
                continue
            most_recent = None
            for i in ins:
                if most_recent is None or i.mtime > most_recent.mtime:
                    most_recent = i
            if not scan.recompute_outputs_dirty(oe, most_recent):
                for o in oe.outputs:
                    self.clean_node(scan, o)
                self.want[oe] = WANT_NOTHING
                self.wanted_edges -= 1
                if not oe.is_phony():
                    self.command_edges -= 1


# --------------------------------------------------------------------------
# Builder

class Config(object):
    def __init__(self):
        self.dry_run = False
        self.verbose = False
        self.failures_allowed = 1
        self.keep_rsp = False
        self.keep_depfile = False


def trace_event(obj):
    path = os.environ.get('REFNINJA_TRACE')
    if not path:
        return
    with open(path, 'a') as f:
        f.write(json.dumps(obj, sort_keys=True) + '\n')


def _makedirs_for(path):
    d = os.path.dirname(path)
    if d:
        try:
            os.makedirs(d, exist_ok=True)
        except OSError as e:
            raise NinjaError('mkdir(%s): %s' % (d, os.strerror(e.errno)))


def _remove_file(path):
    """1 if removed, 0 if it did not exist; raises NinjaError otherwise."""
    try:
        os.unlink(path)
        return 1
    except FileNotFoundError:
        return 0
    except OSError as e:
        raise NinjaError('remove(%s): %s' % (path, os.strerror(e.errno)))


class Builder(object):
    def __init__(self, state, config, build_log, deps_log):
        self.state = state
        self.config = config
        self.build_log = build_log
        self.deps_log = deps_log
        self.scan = DependencyScan(state, build_log, deps_log)
        self.plan = Plan()
        self.finished = 0

    def add_target(self, node):
        self.scan.recompute_dirty(node)
        e = node.in_edge
        if e is not None and e.outputs_ready:
            return
        self.plan.add_target(node)

    def already_up_to_date(self):
        return not self.plan.more_to_do()

    def build(self):
        """Runs the plan.  Returns None on success, else an error string."""
        allowed = self.config.failures_allowed
        while self.plan.more_to_do():
            if allowed and self.plan.ready:
                edge = self.plan.find_work()
                if edge.is_phony():
                    self.plan.edge_finished(edge, True)
                    continue
                if not self._run_edge(edge):
                    allowed -= 1
                continue
            if allowed == 0:
                if self.config.failures_allowed > 1:
                    return 'subcommands failed'
                return 'subcommand failed'
            if allowed < self.config.failures_allowed:
                return 'cannot make progress due to previous errors'
            return 'stuck [this is a bug]'
        return None

    def _status(self, edge, count, command):
        desc = edge.get_binding('description')
        text = command if (self.config.verbose or not desc) else desc
        sys.stdout.write('[%d/%d] %s\n'
                         % (count, self.plan.command_edges, text))
        sys.stdout.flush()

    def _extract_deps(self, edge):
        """deps=gcc: returns list of dep paths; raises ValueError(msg)."""
        depfile = edge.unescaped_depfile()
        if not depfile:
            raise ValueError('edge with deps=gcc but no depfile makes no '
                             'sense')
        try:
            content = read_text_file(depfile)
        except NinjaError as e:
            raise ValueError(str(e))
        if not content:
            return []
        outs, ins = parse_depfile(content)
        deps = [canonicalize_path(i) for i in ins]
        if not self.config.keep_depfile:
            try:
                os.unlink(depfile)
            except OSError as e:
                raise ValueError('deleting depfile: %s\n'
                                 % os.strerror(e.errno))
        return deps

    def _run_edge(self, edge):
        cfg = self.config
        command = edge.evaluate_command()
        console = edge.pool.name == 'console'
        rule = edge.rule.name
        outs = [o.path for o in edge.outputs]

        if cfg.dry_run:
            self.finished += 1
            self._status(edge, self.finished, command)
            trace_event({'outputs': outs, 'rule': rule, 'command': command,
                         'rc': None, 'dry_run': True})
            self.plan.edge_finished(edge, True)
            return True

        for o in edge.outputs:
            _makedirs_for(o.path)
        depfile = edge.unescaped_depfile()
        if depfile:
            _makedirs_for(depfile)
        rspfile = edge.unescaped_rspfile()
        if rspfile:
            content = edge.get_binding('rspfile_content')
            try:
                with open(rspfile, 'wb') as f:
                    f.write(content.encode('utf-8', 'surrogateescape'))
            except OSError as e:
                raise NinjaError('%s: %s' % (rspfile, os.strerror(e.errno)))

        output = ''
        if console:
            self._status(edge, self.finished, command)
            rc = subprocess.call(['/bin/sh', '-c', command])
        else:
            p = subprocess.Popen(['/bin/sh', '-c', command],
                                 stdin=subprocess.DEVNULL,
                                 stdout=subprocess.PIPE,
                                 stderr=subprocess.STDOUT)
            data = p.communicate()[0]
            rc = p.returncode
            output = data.decode('utf-8', 'replace')
        self.finished += 1

        deps_type = edge.get_binding('deps')
        deps = []
        if deps_type:
            try:
                deps = self._extract_deps(edge)
            except ValueError as e:
                if rc == 0:
                    if output:
                        output += '\n'
                    output += str(e)
                    rc = 1

        if not console:
            self._status(edge, self.finished, command)
        if rc != 0:
            sys.stdout.write('FAILED: ' + ''.join(o + ' ' for o in outs) +
                             '\n' + command + '\n')
        if output:
            sys.stdout.write(output)
            if not output.endswith('\n'):
                sys.stdout.write('\n')
        sys.stdout.flush()
        trace_event({'outputs': outs, 'rule': rule, 'command': command,
                     'rc': rc})
        if rc != 0:
            self.plan.edge_finished(edge, False)
            return False

        # Restat the outputs.
        restat = edge.get_binding_bool('restat')
        output_mtime = 0
        node_cleaned = False
        for o in edge.outputs:
            old = o.mtime
            new = o.stat()
            if new > output_mtime:
                output_mtime = new
            if old == new and restat:
                self.plan.clean_node(self.scan, o)
                node_cleaned = True
        if node_cleaned:
            restat_mtime = 0
            for i in edge.non_order_only_inputs():
                m = i.stat()
                if m > restat_mtime:
                    restat_mtime = m
            if restat_mtime != 0 and not deps_type and depfile:
                try:
                    m = os.stat(depfile).st_mtime_ns
                except OSError:
                    m = 0
                if m > restat_mtime:
                    restat_mtime = m
            output_mtime = restat_mtime

        self.plan.edge_finished(edge, True)
        if rspfile and not cfg.keep_rsp:
            try:
                os.unlink(rspfile)
            except OSError:
                pass
        if self.build_log is not None:
            self.build_log.record(edge, output_mtime)
        if deps_type:
            for o in edge.outputs:
                try:
                    m = os.stat(o.path).st_mtime_ns or 1
                except OSError:
                    m = 0
                self.deps_log.record(o.path, m, deps)
        return True


# --------------------------------------------------------------------------
# Tools

class Cleaner(object):
    def __init__(self, state, config):
        self.state = state
        self.config = config
        self.removed = set()
        self.count = 0
        self.status = 0

    def verbose(self):
        return self.config.verbose or self.config.dry_run

    def header(self):
        sys.stdout.write('Cleaning...' + ('\n' if self.verbose() else ' '))

    def footer(self):
        sys.stdout.write('%d files.\n' % self.count)

    def remove(self, path):
        if path in self.removed:
            return
        self.removed.add(path)
        if self.config.dry_run:
            if os.path.lexists(path):
                self.report(path)
            return
        try:
            if _remove_file(path):
                self.report(path)
        except NinjaError as e:
            sys.stderr.write('ninja: error: %s\n' % e)
            self.status = 1

    def report(self, path):
        self.count += 1
        if self.verbose():
            sys.stdout.write('Remove %s\n' % path)

    def remove_edge_files(self, edge):
        depfile = edge.unescaped_depfile()
        if depfile:
            self.remove(depfile)
        rspfile = edge.unescaped_rspfile()
        if rspfile:
            self.remove(rspfile)

    def clean_all(self, generator):
        self.header()
        for e in self.state.edges:
            if e.is_phony():
                continue
            if not generator and e.get_binding_bool('generator'):
                continue
            for o in e.outputs:
                self.remove(o.path)
            self.remove_edge_files(e)
        self.footer()
        return self.status

    def clean_targets(self, targets):
        self.header()
        visited = set()

        def do(node):
            e = node.in_edge
            if e is not None:
                if not e.is_phony():
                    self.remove(node.path)
                    self.remove_edge_files(e)
                for i in e.inputs:
                    if i not in visited:
                        visited.add(i)
                        do(i)
            visited.add(node)

        for t in targets:
            path = canonicalize_path(t)
            if not path:
                sys.stderr.write('ninja: error: failed to canonicalize '
                                 "'%s': empty path\n" % t)
                self.status = 1
                continue
            node = self.state.lookup_node(path)
            if node is None:
                sys.stderr.write("ninja: error: unknown target '%s'\n" % t)
                self.status = 1
                continue
            if self.verbose():
                sys.stdout.write('Target %s\n' % t)
            do(node)
        self.footer()
        return self.status

    def clean_rules(self, rules):
        self.header()
        for name in rules:
            if self.state.env.lookup_rule(name) is None:
                sys.stderr.write("ninja: error: unknown rule '%s'\n" % name)
                self.status = 1
                continue
            if self.verbose():
                sys.stdout.write('Rule %s\n' % name)
            for e in self.state.edges:
                if e.rule.name == name:
                    for o in e.outputs:
                        self.remove(o.path)
                    self.remove_edge_files(e)
        self.footer()
        return self.status


def tool_clean(state, config, args):
    generator = False
    clean_rules = False
    rest = []
    for i, a in enumerate(args):
        if a == '--':
            rest.extend(args[i + 1:])
            break
        if a.startswith('-') and len(a) > 1 and not rest:
            for c in a[1:]:
                if c == 'g':
                    generator = True
                elif c == 'r':
                    clean_rules = True
                else:
                    raise Unsupported("option -%s of '-t clean'" % c)
        else:
            rest.append(a)
    if clean_rules and not rest:
        raise NinjaError('expected a rule to clean')
    cleaner = Cleaner(state, config)
    if rest:
        if clean_rules:
            return cleaner.clean_rules(rest)
        return cleaner.clean_targets(rest)
    return cleaner.clean_all(generator)


def _targets_list(nodes, depth, indent):
    for n in nodes:
        sys.stdout.write('  ' * indent)
        if n.in_edge is not None:
            sys.stdout.write('%s: %s\n' % (n.path, n.in_edge.rule.name))
            if depth > 1 or depth <= 0:
                _targets_list(n.in_edge.inputs, depth - 1, indent + 1)
        else:
            sys.stdout.write('%s\n' % n.path)


def tool_targets(state, config, args):
    depth = 1
    if args:
        mode = args[0]
        if mode == 'rule':
            rule = args[1] if len(args) > 1 else ''
            if not rule:
                # source files: inputs without an in-edge
                seen = set()
                for e in state.edges:
                    for i in e.inputs:
                        if i.in_edge is None and i.path not in seen:
                            seen.add(i.path)
                            sys.stdout.write('%s\n' % i.path)
            else:
                seen = set()
                for e in state.edges:
                    if e.rule.name == rule:
                        for o in e.outputs:
                            seen.add(o.path)
                for p in sorted(seen):
                    sys.stdout.write('%s\n' % p)
            return 0
        if mode == 'depth':
            if len(args) > 1:
                try:
                    depth = int(args[1])
                except ValueError:
                    depth = 0
        elif mode == 'all':
            for e in state.edges:
                for o in e.outputs:
                    sys.stdout.write('%s: %s\n' % (o.path, e.rule.name))
            return 0
        else:
            sys.stderr.write("ninja: error: unknown target tool mode '%s'\n"
                             % mode)
            return 1
    _targets_list(state.root_nodes(), depth, 0)
    return 0


def collect_targets(state, args):
    if not args:
        return state.default_nodes()
    nodes = []
    for a in args:
        path = canonicalize_path(a)
        if not path:
            raise NinjaError("failed to canonicalize '%s': empty path" % a)
        if path.endswith('^'):
            raise Unsupported("'target^' command-line syntax")
        node = state.lookup_node(path)
        if node is None:
            msg = "unknown target '%s'" % path
            if path == 'clean':
                msg += ", did you mean 'ninja -t clean'?"
            elif path == 'help':
                msg += ", did you mean 'ninja -h'?"
            raise NinjaError(msg)
        nodes.append(node)
    return nodes


def tool_commands(state, config, args):
    single = False
    while args and args[0].startswith('-') and len(args[0]) > 1:
        if args[0] == '-s':
            single = True
        elif args[0] == '--':
            args = args[1:]
            break
        else:
            raise Unsupported("option %s of '-t commands'" % args[0])
        args = args[1:]
    nodes = collect_targets(state, args)
    seen = set()

    def pr(edge):
        if edge is None or edge in seen:
            return
        seen.add(edge)
        if not single:
            for i in edge.inputs:
                pr(i.in_edge)
        if not edge.is_phony():
            sys.stdout.write(edge.evaluate_command() + '\n')

    for n in nodes:
        pr(n.in_edge)
    return 0


def tool_query(state, config, args, scan):
    if not args:
        sys.stderr.write('ninja: error: expected a target to query\n')
        return 1
    for node in collect_targets(state, args):
        sys.stdout.write('%s:\n' % node.path)
        edge = node.in_edge
        if edge is not None:
            if not edge.deps_loaded:
                edge.deps_loaded = True
                for o in edge.outputs:
                    o.stat_if_necessary()
                scan.load_deps(edge)
            sys.stdout.write('  input: %s\n' % edge.rule.name)
            for i, n in enumerate(edge.inputs):
                label = ''
                if edge.is_implicit(i):
                    label = '| '
                elif edge.is_order_only(i):
                    label = '|| '
                sys.stdout.write('    %s%s\n' % (label, n.path))
        sys.stdout.write('  outputs:\n')
        for oe in node.out_edges:
            for o in oe.outputs:
                sys.stdout.write('    %s\n' % o.path)
    return 0


# --------------------------------------------------------------------------
# Main

USAGE = """usage: ninja [options] [targets...]

refninja %s -- reference subset of ninja.  Options:
  --version, -v/--verbose, -C DIR, -f FILE, -j N, -k N, -l N, -n,
  -d explain|keeprsp|keepdepfile, -w dupbuild=err,
  -t clean [-g] [-r rules...] [targets...] | targets [all|rule [R]|depth N]
     | commands [-s] [targets...] | query targets...
""" % VERSION


class Options(object):
    def __init__(self):
        self.input_file = 'build.ninja'
        self.working_dir = None
        self.tool = None
        self.tool_args = []
        self.targets = []


def parse_args(argv, config):
    global EXPLAIN
    opts = Options()
    i = 0
    n = len(argv)

    def optarg(flag, rest):
        nonlocal i
        if rest:
            return rest
        i += 1
        if i >= n:
            raise NinjaFatal("option requires an argument -- '%s'" % flag)
        return argv[i]

    while i < n:
        a = argv[i]
        if a == '--':
            opts.targets.extend(argv[i + 1:])
            break
        if a == '--version':
            sys.stdout.write(VERSION + '\n')
            raise SystemExit(0)
        if a == '--verbose':
            config.verbose = True
        elif a == '--quiet':
            raise Unsupported('--quiet')
        elif a in ('--help', '-h'):
            sys.stderr.write(USAGE)
            raise SystemExit(1)
        elif a.startswith('--'):
            raise Unsupported('option ' + a)
        elif a.startswith('-') and len(a) > 1:
            j = 1
            while j < len(a):
                c = a[j]
                rest = a[j + 1:]
                if c == 'n':
                    config.dry_run = True
                elif c == 'v':
                    config.verbose = True
                elif c in 'Cfjkldtw':
                    val = optarg(c, rest)
                    if c == 'C':
                        opts.working_dir = val
                    elif c == 'f':
                        opts.input_file = val
                    elif c == 'j':
                        try:
                            if int(val) < 0:
                                raise ValueError
                        except ValueError:
                            raise NinjaFatal('invalid -j parameter')
                    elif c == 'k':
                        try:
                            k = int(val)
                        except ValueError:
                            raise NinjaFatal('-k parameter not numeric; did '
                                             'you mean -k 0?')
                        config.failures_allowed = k if k > 0 else (1 << 31)
                    elif c == 'l':
                        try:
                            float(val)
                        except ValueError:
                            raise NinjaFatal('-l parameter not numeric: did '
                                             'you mean -l 0.0?')
                    elif c == 'd':
                        if val == 'explain':
                            EXPLAIN = True
                        elif val == 'keeprsp':
                            config.keep_rsp = True
                        elif val == 'keepdepfile':
                            config.keep_depfile = True
                        else:
                            raise Unsupported('-d ' + val)
                    elif c == 'w':
                        if val not in ('dupbuild=err', 'phonycycle=warn'):
                            raise Unsupported('-w ' + val)
                    elif c == 't':
                        if val not in ('clean', 'targets', 'commands',
                                       'query'):
                            raise Unsupported('-t ' + val)
                        opts.tool = val
                        opts.tool_args = list(argv[i + 1:])
                        return opts
                    break
                else:
                    raise Unsupported('option -' + c)
                j += 1
        else:
            opts.targets.append(a)
        i += 1
    return opts


def load_manifest(input_file):
    state = State()
    ManifestParser(state).load(input_file)
    for e in state.edges:
        if e.is_phony():
            continue
        deps = e.get_binding('deps')
        if deps == 'msvc':
            raise Unsupported('deps = msvc (output %s)' % e.outputs[0].path)
        if deps and deps != 'gcc':
            raise NinjaFatal("unknown deps type '%s'" % deps)
    return state


def open_logs(state):
    builddir = state.env.lookup('builddir')
    log_path, deps_path = '.ninja_log', '.ninja_deps'
    if builddir:
        try:
            os.makedirs(builddir, exist_ok=True)
        except OSError as e:
            raise NinjaError("creating build directory %s: %s"
                             % (builddir, os.strerror(e.errno)))
        log_path = builddir + '/' + log_path
        deps_path = builddir + '/' + deps_path
    build_log = BuildLog(log_path)
    build_log.load()
    deps_log = DepsLog(deps_path)
    deps_log.load()
    return build_log, deps_log


def rebuild_manifest(state, config, build_log, deps_log, input_file):
    """Returns 'rebuilt' (caller must reload and start over), 'ran' (the
    manifest edge ran but restat found the manifest unchanged; the graph
    state must be reset) or None (nothing was run)."""
    path = canonicalize_path(input_file)
    if not path:
        raise NinjaError('empty path')
    node = state.lookup_node(path)
    if node is None:
        return None
    builder = Builder(state, config, build_log, deps_log)
    builder.add_target(node)
    if builder.already_up_to_date():
        return None
    err = builder.build()
    if err is not None:
        raise NinjaError("rebuilding '%s': %s" % (input_file, err))
    # Only "rebuilt" if still marked dirty (restat may have cleaned it).
    return 'rebuilt' if node.dirty else 'ran'


def run_build(state, config, build_log, deps_log, targets):
    nodes = collect_targets(state, targets)
    builder = Builder(state, config, build_log, deps_log)
    for n in nodes:
        builder.add_target(n)
    if builder.already_up_to_date():
        sys.stdout.write('ninja: no work to do.\n')
        return 0
    err = builder.build()
    if err is not None:
        sys.stdout.flush()
        sys.stderr.write('ninja: build stopped: %s.\n' % err)
        return 1
    return 0


def real_main(argv):
    config = Config()
    opts = parse_args(argv, config)
    if os.environ.get('NINJA_STATUS') not in (None, '[%f/%t] '):
        raise Unsupported('custom NINJA_STATUS')
    if opts.working_dir is not None:
        if opts.tool is None:
            sys.stdout.write("ninja: Entering directory `%s'\n"
                             % opts.working_dir)
            sys.stdout.flush()
        try:
            os.chdir(opts.working_dir)
        except OSError as e:
            raise NinjaFatal("chdir to '%s' - %s"
                             % (opts.working_dir, os.strerror(e.errno)))

    for _cycle in range(100):
        state = load_manifest(opts.input_file)
        if opts.tool == 'clean':
            return tool_clean(state, config, opts.tool_args)
        if opts.tool == 'targets':
            return tool_targets(state, config, opts.tool_args)
        if opts.tool == 'commands':
            return tool_commands(state, config, opts.tool_args)
        build_log, deps_log = open_logs(state)
        if opts.tool == 'query':
            scan = DependencyScan(state, build_log, deps_log)
            return tool_query(state, config, opts.tool_args, scan)
        res = rebuild_manifest(state, config, build_log, deps_log,
                               opts.input_file)
        if res == 'rebuilt':
            if config.dry_run:
                return 0
            trace_event({'event': 'reload'})
            continue
        if res == 'ran':
            # Ninja: state_.Reset(); a fresh parse is equivalent.
            state = load_manifest(opts.input_file)
        return run_build(state, config, build_log, deps_log, opts.targets)
    raise NinjaError("manifest '%s' still dirty after 100 tries, perhaps "
                     "system time is not set" % opts.input_file)


def main(argv=None):
    """argv: command-line arguments WITHOUT the program name."""
    if argv is None:
        argv = sys.argv[1:]
    sys.setrecursionlimit(max(sys.getrecursionlimit(), 20000))
    try:
        rc = real_main(list(argv))
    except Unsupported as e:
        sys.stdout.flush()
        sys.stderr.write('refninja: unsupported: %s\n' % e)
        rc = 2
    except NinjaError as e:
        sys.stdout.flush()
        sys.stderr.write('ninja: error: %s\n' % e)
        rc = 1
    except NinjaFatal as e:
        sys.stdout.flush()
        sys.stderr.write('ninja: fatal: %s\n' % e)
        rc = 1
    except KeyboardInterrupt:
        sys.stdout.flush()
        sys.stderr.write('ninja: build stopped: interrupted by user.\n')
        rc = 2
    except SystemExit as e:
        rc = e.code if isinstance(e.code, int) else 1
    try:
        sys.stdout.flush()
    except OSError:
        pass
    return rc


if __name__ == '__main__':
    sys.exit(main())
