#!/bin/sh
# tools/confirm_seed.sh seeded/<name>   -- confirm a seeded change independently:
# demo exits 0 on clean HEAD, non-zero with the patch; baseline passing set intact with the patch.
d=$(readlink -f "$1")
wt=$(mktemp -d /tmp/cs.XXXXXX); rmdir "$wt"
git -C /repo worktree add -q --detach "$wt" HEAD || exit 2
demo="$d/demo.py"; runner="/venv/bin/python"
[ -f "$demo" ] || { demo="$d/demo.sh"; runner="sh"; }
BFG_TREE="$wt" PYTHONPATH="$wt" timeout 900 $runner "$demo" >/tmp/cs.$$.clean 2>&1; c=$?
git -C "$wt" apply "$d/patch.diff" || { echo "PATCH DOES NOT APPLY"; git -C /repo worktree remove --force "$wt"; exit 2; }
BFG_TREE="$wt" PYTHONPATH="$wt" timeout 900 $runner "$demo" >/tmp/cs.$$.patched 2>&1; p=$?
/verif/tools/baseline_check.py "$wt" > /tmp/cs.$$.base 2>&1; b=$?
echo "$(basename $d): demo_clean=$c demo_patched=$p baseline_rc=$b $(tail -1 /tmp/cs.$$.base)"
tail -3 /tmp/cs.$$.patched | sed 's/^/    patched> /'
git -C /repo worktree remove --force "$wt"; rm -f /tmp/cs.$$.*
[ $c -eq 0 ] && [ $p -ne 0 ] && [ $b -eq 0 ]
