#!/usr/bin/env python3
"""Regenerate MANIFEST.json from the property modules (kept valid at all times)."""
import importlib, json, os, sys
here = os.path.dirname(os.path.dirname(os.path.abspath(__file__)))
sys.path.insert(0, here); sys.path.insert(0, '/repo')
ALL = ['C%02d' % i for i in range(1, 21)]
NOT_APPLICABLE = {}
checks, na = [], []
for pid in ALL:
    path = os.path.join(here, 'vf', 'props', pid.lower() + '.py')
    if not os.path.exists(path):
        na.append({'property_id': pid, 'reason': NOT_APPLICABLE.get(
            pid, 'check not built yet (work in progress); the technique applies, see DESIGN.md section 3')})
        continue
    mod = importlib.import_module('vf.props.' + pid.lower())
    checks.append({
        'property_id': pid,
        'quick_cmd': './check {} --tier quick'.format(pid),
        'thorough_cmd': './check {} --tier thorough'.format(pid),
        'evidence_file': 'evidence/{}.json'.format(pid),
        'replay_cmd_template': './check {} --replay {{path}}'.format(pid),
        'engine': 'vf',
        'level_claimed': {'category': mod.LEVEL, 'text': mod.LEVEL_TEXT, 'design_ref': 'DESIGN.md section 3, ' + pid},
        'level_note': mod.LEVEL_NOTE,
        'technique': mod.TECHNIQUE,
    })
man = {
    'version': 1,
    'setup_cmd': './setup.sh',
    'hooks': {'guard': 'BFG9000_VERIF', 'enable': 'none needed: instrumentation is external (launchers, stub tools, monkeypatching inside the launcher process); the guard name is reserved and unused',
              'baseline_off_cmd': 'cd /repo && /venv/bin/python -m pytest -ra -q -p no:cacheprovider --timeout=900 --continue-on-collection-errors test/unit',
              'source_commits': [], 'add_only': True},
    'engines': [{'name': 'vf', 'path': 'vf/', 'serves_properties': [c['property_id'] for c in checks],
                 'kind_free_text': 'Hypothesis-driven property-based testing / fault enumeration harness with sharded workers, explicit oracles, replay files and a known-findings list'}],
    'checks': checks,
    'not_applicable': na,
    'notes': 'All checks: ./check <ID> [--tier quick|thorough] [--replay FILE]; VERIF_SEED selects the seed. known_findings.json lists open and fixed genuine defects.',
}
json.dump(man, open(os.path.join(here, 'MANIFEST.json'), 'w'), indent=1)
print('MANIFEST.json:', len(checks), 'checks,', len(na), 'not yet claimed')
