#!/bin/sh
# tools/try_patch.sh <patch.diff> <ID> [check args...]
# Sensitivity protocol: apply a patch to a scratch worktree of /repo (never to
# /repo itself), run ./check <ID> against it (VF_REPO), remove the worktree.
# Evidence/replays of the mutant run go to a scratch VF_OUT, not /verif.
set -u
patch=$(readlink -f "$1"); shift
here=$(cd "$(dirname "$0")/.." && pwd)
wt=$(mktemp -d /tmp/mut.XXXXXX)
out=$(mktemp -d /tmp/mutout.XXXXXX)
rmdir "$wt"
git -C /repo worktree add -q --detach "$wt" HEAD || exit 2
if ! git -C "$wt" apply "$patch"; then echo "patch does not apply"; git -C /repo worktree remove --force "$wt"; rm -rf "$out"; exit 2; fi
VF_REPO="$wt" VF_OUT="$out" "$here/check" "$@"
rc=$?
echo "mutant exit=$rc"
git -C /repo worktree remove --force "$wt"
rm -rf "$out"
exit $rc
