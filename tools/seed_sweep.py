#!/venv/bin/python
"""tools/seed_sweep.py [seed-dir...]: for every seeded change (default: all)
confirm it independently (tools/confirm_seed.sh) and run the property's quick
check against the mutant (tools/try_patch.sh); record both in meta.json."""
import json, os, re, subprocess, sys
here = os.path.dirname(os.path.dirname(os.path.abspath(__file__)))
dirs = sys.argv[1:] or sorted(
    os.path.join(here, 'seeded', d) for d in os.listdir(os.path.join(here, 'seeded'))
    if re.match(r'C\d\d-\d$', d))
for d in dirs:
    name = os.path.basename(d.rstrip('/'))
    prop = name.split('-')[0]
    mp = os.path.join(d, 'meta.json')
    meta = json.load(open(mp))
    c = subprocess.run([os.path.join(here, 'tools', 'confirm_seed.sh'), d],
                       stdout=subprocess.PIPE, stderr=subprocess.STDOUT, text=True)
    m = re.search(r'demo_clean=(\d+) demo_patched=(\d+) baseline_rc=(\d+) (.*)', c.stdout)
    if m:
        meta['confirmed_by_verif'] = {
            'demo_clean': int(m.group(1)), 'demo_patched': int(m.group(2)),
            'baseline_rc': int(m.group(3)), 'baseline': m.group(4).strip(),
            'how': 'tools/confirm_seed.sh in a scratch worktree of /repo (demo on '
                   'clean HEAD, demo with patch, full baseline with patch)'}
    else:
        meta['confirmed_by_verif'] = {'error': c.stdout[-300:]}
    t = subprocess.run([os.path.join(here, 'tools', 'try_patch.sh'),
                        os.path.join(d, 'patch.diff'), prop],
                       stdout=subprocess.PIPE, stderr=subprocess.STDOUT, text=True)
    keys = sorted(set(re.findall(r'^\s+key=(\S+)', t.stdout, re.M)))
    rc = re.search(r'mutant exit=(\d+)', t.stdout)
    rc = int(rc.group(1)) if rc else None
    meta['detected_by'] = ('{} {}'.format(prop, ', '.join(keys[:4])) if rc == 1
                           else 'NOT DETECTED (exit {})'.format(rc))
    meta['detection_cmd'] = 'tools/try_patch.sh seeded/{}/patch.diff {}'.format(name, prop)
    json.dump(meta, open(mp, 'w'), indent=1, ensure_ascii=False)
    print('{}: confirm[{}] detect_rc={} {}'.format(
        name, (m.group(0)[:60] if m else 'ERR ' + c.stdout[-120:].replace('\n', ' ')),
        rc, ', '.join(keys[:3])), flush=True)
