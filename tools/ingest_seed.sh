#!/bin/sh
# tools/ingest_seed.sh <ID> [offset]  -- copy the seeds a sub-agent left in /tmp/wt/<ID>/seeded/{1,2} to
# seeded/<ID>-(offset+1), -(offset+2) (offset 2 = round 2, 4 = round 3), run the property's quick check
# against each mutant, remove the worktree.
id=$1; off=${2:-2}
for k in 1 2; do
  n=$((k+off))
  [ -d /tmp/wt/$id/seeded/$k ] || continue
  mkdir -p seeded/$id-$n; cp /tmp/wt/$id/seeded/$k/* seeded/$id-$n/ 2>/dev/null
  echo "== $id-$n: $(python3 -c "import json;print(json.load(open('seeded/$id-$n/meta.json')).get('summary','')[:160])")"
  tools/try_patch.sh seeded/$id-$n/patch.diff $id 2>&1 | grep -E "^  key|mutant|patch" | cut -c1-330 | head -4
done
git -C /repo worktree remove --force /tmp/wt/$id 2>/dev/null
